"""Structural rules for the container classes (array.c, linked_list.c, dlinked_list.c)."""
import re

from . import expr as X, flow, nullness, own, classinfo
from .facts import walk, kids, AnalysisBroken
from .report import canon

NORETURN = {"libast_fatal_error"}
UNITS = ("array.c", "linked_list.c", "dlinked_list.c")


def self_field_store(n, field):
    """assignment (possibly chained) whose target is <param0>-><field>"""
    if n.get("k") != "assign":
        return False
    l = X.strip(n["ch"][0])
    if l.get("k") == "member" and l.get("n") == field and l.get("arrow"):
        b = X.strip(l["ch"][0])
        return b.get("k") == "ref" and b.get("rk") == "param" and b.get("pi") == 0
    return False


def store_targets(n):
    """all lvalues of a (chained) assignment  a = b = c"""
    out = []
    cur = n
    while cur is not None and cur.get("k") == "assign" and cur.get("op") == "=":
        out.append(X.strip(cur["ch"][0]))
        nxt = X.strip(cur["ch"][1])
        cur = nxt if nxt.get("k") == "assign" else None
    return out


def final_rhs(n):
    cur = n
    while True:
        r = X.strip(cur["ch"][1])
        if r.get("k") == "assign" and r.get("op") == "=":
            cur = r
        else:
            return cur["ch"][1]


# --------------------------------------------------------------------------- L1 realloc pairing
def check_realloc_pairing(chk, prog, units, only=None):
    n = 0
    for u in units:
        for f in prog.units[u].functions.values():
            if only is not None and f.name not in only:
                continue
            seen = set()
            for x in walk(f.body):
                if x.get("k") == "call" and X.callee_name(x) in ("realloc", "spifmem_realloc"):
                    # climb to the outermost expression of the REALLOC expansion / the call
                    top = x
                    p = f.parent.get(top["i"])
                    while p is not None and p.get("k") in ("paren", "icast", "cast", "cond"):
                        top = p
                        p = f.parent.get(p["i"])
                    if top["i"] in seen:
                        continue
                    seen.add(top["i"])
                    n += 1
                    memarg = x["ch"][1 if X.callee_name(x) == "realloc" else 4]
                    ok = p is not None and p.get("k") == "assign" and p.get("op") == "=" and canon(f, p["ch"][0]) == canon(f, memarg)
                    tgt = X.render(p["ch"][0])[:30] if p is not None and p.get("k") == "assign" else "nothing"
                    chk.ob("L1", f.name, "realloc-pairing:" + canon(f, memarg)[:36], ok, loc=f.loc(x),
                           detail="%s: the result of REALLOC(%s, ..) is stored into %s, not back into %s: when the block moves or the size is 0 "
                                  "(REALLOC frees and yields NULL) %s keeps pointing at released memory" % (
                                      f.name, X.render(memarg)[:30], tgt, X.render(memarg)[:30], X.render(memarg)[:30]),
                           proof="x = REALLOC(x, ..)")
    return n


# --------------------------------------------------------------------------- helpers shared by the link-effect rules
def unit_closure(f, stop=r"_item_(new|del|done|init|dup|comp|show|type)$"):
    """f and the unit-local functions it calls, transitively (the item class's own methods are primitives)"""
    out = [f]
    seen = {f.name}
    work = [f]
    while work:
        g = work.pop()
        for c in X.calls_in(g.body):
            cn = X.callee_name(c) or ""
            h = g.unit.functions.get(cn)
            if h is not None and cn not in seen and not re.search(stop, cn) and h.cfg is not None:
                seen.add(cn)
                out.append(h)
                work.append(h)
    return out


def deleter_params(unit):
    """{function name: set of parameter indices whose node the function deletes (item_del on it, directly or through
    another such function)}"""
    res = {}
    changed = True
    while changed:
        changed = False
        for f in unit.functions.values():
            pidx = {p["d"]: i for i, p in enumerate(f.params)}
            for c in X.calls_in(f.body):
                cn = X.callee_name(c) or ""
                args = c["ch"][1:]
                targets = []
                if re.search(r"_item_del$", cn) and args:
                    targets = [args[0]]
                elif cn in res:
                    targets = [args[j] for j in res[cn] if j < len(args)]
                for a in targets:
                    s_ = X.strip(a)
                    if s_ is not None and s_.get("k") == "ref" and s_.get("d") in pidx:
                        if pidx[s_["d"]] not in res.setdefault(f.name, set()):
                            res[f.name].add(pidx[s_["d"]])
                            changed = True
    return res


def node_deletions(f, delp):
    """[(call, deleted expression)] for every place f deletes a node: item_del(E) or helper(.., E, ..) deleting its parameter"""
    out = []
    for c in X.calls_in(f.body):
        cn = X.callee_name(c) or ""
        args = c["ch"][1:]
        if re.search(r"_item_del$", cn) and args:
            out.append((c, args[0]))
        elif cn in delp:
            for j in delp[cn]:
                if j < len(args):
                    out.append((c, args[j]))
    return out


def link_pointers(f):
    """{decl: kinds} for locals of pointer-to-link type:  L = &self->head  /  L = &X->next  (the pointer-to-link idiom)"""
    res = {}
    for x in walk(f.body):
        pairs = []
        if x.get("k") == "assign" and x.get("op") == "=":
            pairs.append((X.strip(x["ch"][0]), x["ch"][1]))
        if x.get("k") == "decl":
            for dcl in x.get("decls", ()):
                if dcl.get("init") is not None:
                    pairs.append(({"k": "ref", "d": dcl["d"]}, dcl["init"]))
        for l, r in pairs:
            r = X.strip(r)
            if l.get("k") == "ref" and r is not None and r.get("k") == "un" and r.get("op") == "&":
                t = X.strip(r["ch"][0])
                if t.get("k") == "member" and t.get("n") in ("head", "next", "tail", "prev"):
                    res.setdefault(l["d"], set()).add(t["n"])
    # a parameter that receives the address of a link at the call sites in the same file (unlink(&self->head, &self->tail, node))
    unit_ = getattr(f, "unit", None)
    if unit_ is not None and f.params:
        for g in unit_.functions.values():
            if g.body is None or g is f:
                continue
            for c in X.calls_in(g.body):
                if X.callee_name(c) != f.name:
                    continue
                for j, a in enumerate(c["ch"][1:]):
                    a = X.strip(a)
                    if j < len(f.params) and a is not None and a.get("k") == "un" and a.get("op") == "&":
                        t = X.strip(a["ch"][0])
                        if t is not None and t.get("k") == "member" and t.get("n") in ("head", "next", "tail", "prev"):
                            res.setdefault(f.params[j]["d"], set()).add(t["n"])
    return res


def chain_stores(f):
    """[(kind, node)] with kind in pred-next / succ-prev / head / tail for every store of f that re-links the chain"""
    out = []
    lp = link_pointers(f)
    for x in walk(f.body):
        if x.get("k") != "assign" or x.get("op") != "=":
            continue
        for l in store_targets(x):
            if l.get("k") == "member":
                b = X.strip(l["ch"][0])
                bself = b.get("k") == "ref" and b.get("rk") == "param" and b.get("pi") == 0
                if l["n"] == "next" and not bself:
                    out.append(("pred-next", x))
                if l["n"] == "prev" and not bself:
                    out.append(("succ-prev", x))
                if l["n"] in ("head", "tail") and bself:
                    out.append((l["n"], x))
            if l.get("k") == "un" and l.get("op") == "*":
                t = X.strip(l["ch"][0])
                if t.get("k") == "ref" and t.get("d") in lp:
                    for kind in lp[t["d"]]:
                        out.append(({"next": "pred-next", "prev": "succ-prev"}.get(kind, kind), x))
    return out


def len_updates(f, sign):
    """nodes of f that add (sign=+1) / subtract (sign=-1) one to self->len"""
    out = []
    for x in walk(f.body):
        t = None
        if x.get("k") == "un" and x.get("op") in ("++", "--"):
            t, sg = X.strip(x["ch"][0]), (1 if x["op"] == "++" else -1)
        elif x.get("k") == "assign" and x.get("op") in ("+=", "-=") and X.const_val(x["ch"][1]) == 1:
            t, sg = X.strip(x["ch"][0]), (1 if x["op"] == "+=" else -1)
        elif x.get("k") == "assign" and x.get("op") == "=":
            r = X.strip(x["ch"][1])
            l = X.strip(x["ch"][0])
            if r.get("k") == "bin" and r.get("op") in ("+", "-") and X.const_val(r["ch"][1]) == 1 and canon_eq(l, r["ch"][0]):
                t, sg = l, (1 if r["op"] == "+" else -1)
        if t is not None and t.get("k") == "member" and t.get("n") == "len" and sg == sign:
            out.append(x)
    return out


def canon_eq(a, b):
    return X.render(X.strip(a)) == X.render(X.strip(b))


# --------------------------------------------------------------------------- L2 unlink effects
def _if_chain_arms(f, node):
    """{if-node id: arm} for the if statements enclosing node"""
    res = {}
    for anc in f.ancestors(node):
        if anc.get("k") == "if":
            inthen = anc["then"] is node or any(y is node for y in walk(anc["then"]))
            res[anc["i"]] = "then" if inthen else "else"
    return res


def entry_points(prog, unit, iface_names, only=None):
    """functions of `unit` installed in an interface slot (not the object-protocol slots)"""
    out = []
    for t in prog.class_tables():
        if t.get("unit") != unit:
            continue
        for s_, v in t["slots"].items():
            if isinstance(v, str) and not s_.startswith("parent.") and "." not in s_:
                f = prog.fn(v)
                if f is not None and f not in out and (only is None or f.name in only) and "iterator" not in t["type"]:
                    if not any(it in t["type"] for it in ("spif_class_t",)):
                        out.append(f)
    return out


_END_DONE = set()


def check_unlink_effects(chk, prog, unit, doubly, only=None):
    """L2: an interface function that takes a node out of the chain (it, or a helper it calls, deletes a node) updates - in the
    function or its helpers - the predecessor's next (or the link that led to the node), the successor's prev, head and tail;
    and the head and tail updates are independent (a one-element list is both first and last)"""
    u = prog.units[unit]
    delp = deleter_params(u)
    n = 0
    for f in entry_points(prog, unit, None, only):
        clo = unit_closure(f)
        dels = []
        for g in clo:
            dels += [(g, c, e) for c, e in node_deletions(g, delp)]
        if not dels:
            continue
        n += 1
        stores = {"pred-next": [], "succ-prev": [], "head": [], "tail": []}
        for g in clo:
            for kind, x in chain_stores(g):
                stores[kind].append((g, x))
        need = ["pred-next", "head"] + (["succ-prev", "tail"] if doubly else [])
        g0, c0, _ = dels[0]
        for kind in need:
            chk.ob("L2", f.name, "unlink-updates:" + kind, bool(stores[kind]), loc=g0.loc(c0),
                   detail="%s takes a node out of the list but neither it nor its helpers ever update the %s: %s" % (f.name, {
                       "pred-next": "predecessor's next link", "succ-prev": "successor's prev link", "head": "list head", "tail": "list tail"}[kind], {
                       "pred-next": "the chain still reaches the deleted node", "succ-prev": "walking backwards reaches the deleted node",
                       "head": "removing the first element leaves head dangling", "tail": "removing the last element leaves tail dangling"}[kind]),
                   proof="a store to the %s exists in %s" % (kind, ", ".join(sorted({g.name for g, _ in stores[kind]}))))
        # the new end of the list lies inside the list: a tail (head) store of a node whose position is provably past the last
        # (before the first) node - `tail = removed->next` for the removed last node - leaves the end pointer NULL or dangling
        # while other nodes remain (GHOSTPOS; reported only when the state entails it)
        from .ghostpos import GhostPos
        from .lin import Lin, entails as _entails
        mut_, pure_ = unit_effects(prog, unit)
        for kind in ("tail", "head"):
            for g, x in stores[kind]:
                if any(classinfo.is_node_ctor(g.unit, X.callee_name(c_) or "") for c_ in X.calls_in(g.body)):
                    continue
                key_ = (g.name, x["i"])
                if key_ in _END_DONE:
                    continue
                _END_DONE.add(key_)
                eng = GhostPos(g, prog, mutators=mut_, pure=pure_)
                if eng.cfg is None:
                    continue
                eng.run()
                verdict = []

                def v_end(st, n_, blk, x=x, eng=eng, kind=kind, verdict=verdict):
                    if n_ is x:
                        p_ = eng.pos(x["ch"][1])
                        if p_ is None:
                            return
                        L_ = Lin.sym("len")
                        out_ = _entails(list(st), p_ - L_) if kind == "tail" else _entails(list(st), -p_ - 1)
                        verdict.append(out_)
                eng.visit(v_end)
                if verdict:
                    chk.ob("L2", g.name, "new-%s-inside-list:%s" % (kind, canon(g, x)[:30]), not any(verdict), loc=g.loc(x),
                           detail="%s stores %s, a node position %s of the list, as the new %s: removing the %s element leaves %s NULL "
                                  "(or dangling) while other nodes remain" % (g.name, X.render(x["ch"][1])[:30],
                                                                              "past the end" if kind == "tail" else "before the start", kind,
                                                                              "last" if kind == "tail" else "first", kind),
                           proof="the stored node's ghost position is not past the %s" % ("end" if kind == "tail" else "start"))
        if doubly and stores["head"] and stores["tail"]:
            bad = None
            for gh, hs in stores["head"]:
                for gt, ts in stores["tail"]:
                    if gh is not gt:
                        continue
                    ha, ta = _if_chain_arms(gh, hs), _if_chain_arms(gt, ts)
                    for i_ in set(ha) & set(ta):
                        if ha[i_] != ta[i_]:
                            bad = (gt, ts)
            chk.ob("L2", f.name, "head-tail-independent", bad is None, loc=(bad[0].loc(bad[1]) if bad else f.loc(f.body)),
                   detail="%s updates the tail only in the else-arm of the test that updates the head (or vice versa): when the removed node is "
                          "both first and last (a one-element list) one of the two keeps pointing at the deleted node" % f.name,
                   proof="head and tail updates are not in opposite arms of one if")
    return n


# --------------------------------------------------------------------------- L3 insertion effects
def _link_flow(f, doubly, unit, tracked, entry_new, memo):
    """forward must-dataflow: for the node held by each tracked decl, is it linked forwards (someone's next / head / *link) and
    backwards (someone's prev / tail) and has len been incremented, at every success return?  Returns [(return node, decl, fwd, bwd, len)]"""
    cfg = nullness.prepared_cfg(f, NORETURN)
    lp = link_pointers(f)
    results = []
    lenplus = {x["i"] for x in len_updates(f, +1)}

    def is_t(e, d):
        s_ = X.strip(e)
        return s_ is not None and s_.get("k") == "ref" and s_.get("d") == d

    def transfer(state, x, blk):
        st = state
        if x.get("k") == "assign" and x.get("op") == "=":
            l0 = X.strip(x["ch"][0])
            rr = X.strip(x["ch"][1])
            if l0.get("k") == "ref" and l0.get("d") in tracked and rr.get("k") == "call" and classinfo.is_node_ctor(f.unit, X.callee_name(rr) or ""):
                st = (st - {("fwd", l0["d"]), ("bwd", l0["d"])}) | {("new", l0["d"])}
            r = final_rhs(x)
            for d in tracked:
                if is_t(r, d):
                    for l in store_targets(x):
                        if l.get("k") == "member":
                            if l["n"] in ("next", "head"):
                                st = st | {("fwd", d)}
                            if l["n"] in ("prev", "tail"):
                                st = st | {("bwd", d)}
                        if l.get("k") == "un" and l.get("op") == "*":
                            t = X.strip(l["ch"][0])
                            if t.get("k") == "ref" and t.get("d") in lp:
                                if lp[t["d"]] & {"head", "next"}:
                                    st = st | {("fwd", d)}
                                if lp[t["d"]] & {"tail", "prev"}:
                                    st = st | {("bwd", d)}
        if x["i"] in lenplus:
            st = st | {("len++",)}
        if x.get("k") == "call":
            cn = X.callee_name(x) or ""
            h = unit.functions.get(cn)
            if h is not None and h is not f and h.cfg is not None and not re.search(r"_item_(new|del|set_data|get_data)$", cn):
                args = x["ch"][1:]
                for j, a in enumerate(args):
                    for d in tracked:
                        if is_t(a, d) and j < len(h.params):
                            fw, bw, ln = helper_link_summary(h, j, doubly, unit, memo)
                            if fw:
                                st = st | {("fwd", d)}
                            if bw:
                                st = st | {("bwd", d)}
                            if ln:
                                st = st | {("len++",)}
        return st

    def visit(state, x, blk):
        if x.get("k") == "return":
            val = x.get("val")
            cv = X.const_val(val) if val is not None else 1
            refusing = val is not None and (cv == 0 or X.is_null_const(val))
            if not refusing:
                for d in tracked:
                    if ("new", d) in state:
                        results.append((x, d, ("fwd", d) in state, ("bwd", d) in state, ("len++",) in state))
    init = frozenset(("new", d) for d in entry_new)
    ins = flow.forward(cfg, init, transfer, visit=visit)
    # a helper that falls off its end (void): the state flowing into the exit block counts as its (only) success return
    st = ins.get(cfg.exit)
    if st is not None and not any(x.get("k") == "return" for x in walk(f.body)):
        for d in tracked:
            if ("new", d) in st:
                results.append((f.body, d, ("fwd", d) in st, ("bwd", d) in st, ("len++",) in st))
    return results


def helper_link_summary(h, j, doubly, unit, memo):
    key = (h.name, j)
    if key in memo:
        return memo[key]
    memo[key] = (False, False, False)
    d = h.params[j]["d"]
    res = _link_flow(h, doubly, unit, {d}, {d}, memo)
    if not res:
        out = (False, False, False)
    else:
        out = (all(r[2] for r in res), all(r[3] for r in res), all(r[4] for r in res))
    memo[key] = out
    return out


def check_insert_effects(chk, prog, unit, doubly, only=None):
    """L3/L5: every node an interface function creates is, on every path to a success return, linked forwards (someone's next,
    the head, or the link that is being followed) and - doubly linked - backwards (someone's prev or the tail), in the function
    or in a helper it hands the node to; len is incremented on those paths"""
    u = prog.units[unit]
    n = 0
    memo = {}
    for f in u.functions.values():
        if only is not None and f.name not in only:
            continue
        if re.search(r"_dup$|_item_", f.name) or classinfo.is_node_ctor(f.unit, f.name):
            continue            # (a wrapper that only makes a node and hands it back is a constructor, not an insertion)
        news = set()
        for x in walk(f.body):
            if x.get("k") == "assign" and x.get("op") == "=":
                r = X.strip(x["ch"][1])
                l = X.strip(x["ch"][0])
                if r.get("k") == "call" and classinfo.is_node_ctor(f.unit, X.callee_name(r) or "") and l.get("k") == "ref" and l.get("rk") == "local":
                    news.add(l["d"])
        if not news:
            continue
        n += 1
        results = _link_flow(f, doubly, u, news, set(), memo)
        loc = f.loc(results[0][0]) if results else f.loc(f.body)
        badf = [r for r in results if not r[2]]
        badb = [r for r in results if not r[3]]
        badl = [r for r in results if not r[4]]
        chk.ob("L3", f.name, "new-node-forward-linked", not badf, loc=f.loc(badf[0][0]) if badf else loc,
               detail="%s returns success on a path on which the node it created is neither stored as some node's next nor as the head "
                      "(in the function or a helper it passes the node to): the element is not in the chain" % f.name,
               proof="on every success path the new node becomes someone's next / the head")
        if doubly:
            chk.ob("L3", f.name, "new-node-backward-linked", not badb, loc=f.loc(badb[0][0]) if badb else loc,
                   detail="%s returns success on a path on which the node it created is neither stored as some node's prev nor as the tail: "
                          "backward walks and the tail pointer miss the new last/only element" % f.name,
                   proof="on every success path the new node becomes someone's prev / the tail")
        # L3: the node that is linked in carries the caller's element: a set_data(node, obj) / node->data = obj of the element
        # parameter dominates every success return (in every build configuration: a store written inside an assertion's
        # argument is gone when assertions are compiled out)
        objp = [p_ for p_ in f.params[1:] if p_.get("tp") and re.search(r"spif_obj_t$|obj_t_struct \*$", (p_.get("t", "") + " " + p_.get("tc", "")).strip())]
        if objp and results:
            od = objp[0]["d"]
            cfg_ = nullness.prepared_cfg(f, NORETURN)
            gives = []
            for x in walk(f.body):
                if x.get("k") == "call" and re.search(r"_item_set_data$", X.callee_name(x) or "") and len(x["ch"]) >= 3:
                    a0, a1 = X.strip(x["ch"][1]), X.strip(x["ch"][2])
                    if a0.get("d") in news and a1.get("d") == od:
                        gives.append(x)
                if x.get("k") == "assign" and x.get("op") == "=":
                    l_, r_ = X.strip(x["ch"][0]), X.strip(x["ch"][1])
                    if l_.get("k") == "member" and l_.get("n") == "data" and X.strip(l_["ch"][0]).get("d") in news and r_ is not None and r_.get("d") == od:
                        gives.append(x)
            # helpers that are handed both the node and the element do the giving themselves
            handed = [c_ for c_ in X.calls_in(f.body) if u.functions.get(X.callee_name(c_) or "") is not None and
                      any(X.strip(a_).get("d") == od for a_ in c_["ch"][1:])]
            succ = [r for r in results if r[2]]
            bad = [r for r in succ if not any(cfg_.node_dominates(g_["i"], r[0]["i"]) for g_ in gives + handed)]
            chk.ob("L3", f.name, "new-node-carries-element", not bad, loc=f.loc(bad[0][0]) if bad else loc,
                   detail="%s links a new node in and returns success on a path on which the caller's element was never put into that node: "
                          "the list grows by an empty placeholder and the element is lost" % f.name,
                   proof="set_data(node, element) dominates every success return")
        chk.ob("L5", f.name, "len-incremented", not badl, loc=f.loc(badl[0][0]) if badl else loc,
               detail="%s links a new node in without incrementing len on some path: count and chain length disagree" % f.name,
               proof="len + 1 on every success path that created a node")
    return n


def _len_balance(f, u, memo, depth=0):
    """[(return node, balance or "T")] per enumerated path (unit-local helpers spliced in, flag tests expanded, contradictory
    paths dropped): +1 for each node a constructor makes, -1 for each `len + 1`; "T" (not followed) after any other store to
    len, a node deletion, or a helper that touches nodes / len and could not be spliced in"""
    from . import paths
    if f.cfg is None:
        return [(f.body, "T")]
    helpers = {g.name: g for g in u.functions.values() if g is not f and g.body is not None and not classinfo.is_node_ctor(f.unit, g.name)
               and not re.search(r"_item_", g.name)}
    LIM = 2048
    ps = paths.enumerate_paths(f, limit=LIM, noreturn=NORETURN, inline=helpers, expand=True, decls=True, steps=True)
    if len(ps) >= LIM:
        return [(f.body, "T")]
    delp = deleter_params(u)

    def touches(g):
        if g.name not in memo:
            memo[g.name] = False
            memo[g.name] = bool(len_updates(g, +1) or len_updates(g, -1) or node_deletions(g, delp) or
                                any(classinfo.is_node_ctor(g.unit, X.callee_name(c) or "") or
                                    (u.functions.get(X.callee_name(c) or "") is not None and u.functions[X.callee_name(c)].body is not None
                                     and touches(u.functions[X.callee_name(c)])) for c in X.calls_in(g.body)) or
                                any(x.get("k") == "member" and x.get("n") == "len" and _is_stored(g, x) for x in walk(g.body)))
        return memo[g.name]

    def is_len(t):
        t = X.strip(t)
        return t is not None and t.get("k") == "member" and t.get("n") == "len"
    out = []
    for p in ps:
        if p and p[-1] == ("noreturn",):
            continue
        bal = 0
        ret = f.body
        for ev in p:
            if bal == "T":
                break
            if ev[0] == "call":
                cn = ev[1] or ""
                if classinfo.is_node_ctor(f.unit, cn):
                    bal += 1
                elif re.search(r"_item_del$", cn) or cn in delp:
                    bal = "T"
                elif cn in helpers and not paths.inlinable(helpers[cn]) and touches(helpers[cn]):
                    bal = "T"
            elif ev[0] == "step" and is_len(ev[2]["ch"][0]):
                bal = (bal - 1) if ev[1] == "++" else "T"
            elif ev[0] == "assign" and is_len(ev[2]["ch"][0]):
                n_ = ev[2]
                one = (n_.get("op") == "+=" and X.const_val(n_["ch"][1]) == 1)
                if n_.get("op") == "=":
                    r = X.strip(n_["ch"][1])
                    one = r is not None and r.get("k") == "bin" and r.get("op") == "+" and X.const_val(r["ch"][1]) == 1 and canon_eq(n_["ch"][0], r["ch"][0])
                bal = (bal - 1) if one else "T"
            elif ev[0] == "ret":
                ret = ev[1]
        out.append((ret, bal))
    return out or [(f.body, "T")]


def _is_stored(g, x):
    par = g.parent.get(x["i"])
    while par is not None and par.get("k") in ("paren", "icast", "cast"):
        par = g.parent.get(par["i"])
    if par is None:
        return False
    if par.get("k") == "assign" and X.strip(par["ch"][0]) is x:
        return True
    return par.get("k") == "un" and par.get("op") in ("++", "--")


def check_len_balance(chk, prog, unit, only=None):
    """L5 (count follows creation): in a function that only adds nodes, every node a constructor makes - stored into a local,
    straight into a link or the head, in the function or in a helper - is matched by one `len + 1` on every path to a return
    (a dataflow over the difference; paths that disagree, decrements, assignments to len and deletions make it undecided)"""
    u = prog.units[unit]
    n = 0
    memo = {}
    for f in u.functions.values():
        if only is not None and f.name not in only:
            continue
        if re.search(r"_dup$|_item_", f.name) or classinfo.is_node_ctor(f.unit, f.name):
            continue
        makes = [c for c in X.calls_in(f.body) if classinfo.is_node_ctor(f.unit, X.callee_name(c) or "")]
        if not makes:
            continue
        res = _len_balance(f, u, memo)
        n += 1
        bad = [(r, v) for r, v in res if v != "T" and v != 0]
        chk.ob("L5", f.name, "count-follows-creation", not bad, loc=f.loc(bad[0][0]) if bad else f.loc(f.body),
               detail="%s reaches a return having created %s node(s) more than it added to len: count and chain length disagree "
                      "(walks bounded by len stop short of / run past the chain)" % (f.name, bad[0][1] if bad else 0),
               proof="created nodes and len increments balance on every followed path (%d returns, %d not followed)" %
                     (len(res), sum(1 for _, v in res if v == "T")))
    return n


def check_len_on_remove(chk, prog, unit, only=None):
    """L5: an interface function that takes a node out decrements len (itself or in a helper)"""
    u = prog.units[unit]
    delp = deleter_params(u)
    n = 0
    for f in entry_points(prog, unit, None, only):
        clo = unit_closure(f)
        dels = []
        for g in clo:
            dels += [(g, c) for c, e in node_deletions(g, delp)]
        if not dels:
            continue
        n += 1
        decs = []
        for g in clo:
            decs += [(g, x) for x in len_updates(g, -1)]
        # each function of the closure that deletes must either decrement on the path of the deletion or be called by one that does
        ok = bool(decs)
        if ok:
            for g, c in dels:
                mine = [x for gg, x in decs if gg is g]
                if mine:
                    cfg = nullness.prepared_cfg(g, NORETURN)
                    if not any(cfg.node_dominates(c["i"], x["i"]) or cfg.node_dominates(x["i"], c["i"]) for x in mine):
                        ok = False
        chk.ob("L5", f.name, "len-decremented", ok, loc=dels[0][0].loc(dels[0][1]),
               detail="%s takes a node out without decrementing len on that path" % f.name, proof="len - 1 on the path of every node deletion")
    return n


# --------------------------------------------------------------------------- L4 reverse
def check_reverse(chk, prog, unit, doubly):
    n = 0
    for f in classinfo.functions_in_slot(prog, "reverse"):
        if f.unit.name != unit:
            continue
        n += 1
        for fld in (["head", "tail"] if doubly else ["head"]):
            ok = any(any(l.get("k") == "member" and l.get("n") == fld for l in store_targets(x)) for x in walk(f.body)
                     if x.get("k") == "assign" and x.get("op") == "=")
            chk.ob("L4", f.name, "reverse-updates:" + fld, ok, loc=f.loc(f.body),
                   detail="%s reverses the chain but never updates self->%s" % (f.name, fld), proof="self->%s is stored" % fld)
        if doubly and f.cfg is not None:
            # the new last node is the node that was first: the value stored into self->tail is the head the list had on entry
            # (self->head read before any store to it, or a local that was given that value) - must-dataflow of who holds it
            cfg = nullness.prepared_cfg(f, NORETURN)
            selfd = f.params[0]["d"] if f.params else None

            def is_field(e, fld):
                s_ = X.strip(e)
                return s_ is not None and s_.get("k") == "member" and s_.get("n") == fld and (X.strip(s_["ch"][0]) or {}).get("d") == selfd

            def holds_old_head(state, e):
                s_ = X.strip(e)
                if s_ is None:
                    return False
                if is_field(s_, "head"):
                    return ("field",) in state
                return s_.get("k") == "ref" and ("loc", s_.get("d")) in state
            results = []

            def transfer(state, x, blk):
                if x.get("k") == "assign" and x.get("op") == "=":
                    l = X.strip(x["ch"][0])
                    r = final_rhs(x)
                    if is_field(l, "head"):
                        return frozenset(y for y in state if y != ("field",))
                    if l is not None and l.get("k") == "ref" and l.get("rk") == "local":
                        st = frozenset(y for y in state if y != ("loc", l["d"]))
                        return st | {("loc", l["d"])} if holds_old_head(state, r) else st
                return state

            def visit(state, x, blk):
                if x.get("k") == "assign" and x.get("op") == "=" and is_field(X.strip(x["ch"][0]), "tail"):
                    results.append((x, holds_old_head(state, final_rhs(x))))
            flow.forward(cfg, frozenset({("field",)}), transfer, visit=visit)
            for x, ok in results:
                chk.ob("L4", f.name, "new-tail-is-old-head:" + canon(f, x)[:30], ok, loc=f.loc(x),
                       detail="%s stores %s into self->tail, which is not (provably) the node that was the head on entry: after the "
                              "reversal the last node is the old first one - with anything else append / get from the end / remove "
                              "of the last element work on the wrong node" % (f.name, X.render(final_rhs(x))[:30]),
                       proof="the stored value is self->head read before any store to it (or a local holding that value)")
    return n


# --------------------------------------------------------------------------- L6 ordering direction
def _cmp_pred(cond):
    """('GREATER'|'LESS'|'EQUAL', negated, comp-call or local) for conditions built from SPIF_CMP_IS_*"""
    c = X.strip(cond)
    neg = False
    while c.get("k") == "un" and c.get("op") == "!":
        c = X.strip(c["ch"][0])
        neg = not neg
    if c.get("k") == "bin" and c.get("op") in ("==", "!="):
        v = X.const_val(c["ch"][1])
        if v in (-1, 0, 1):
            kind = {1: "GREATER", -1: "LESS", 0: "EQUAL"}[v]
            if c["op"] == "!=":
                neg = not neg
            return kind, neg, c["ch"][0]
    return None


def _comp_args_all(f, e):
    """[(arg0, arg1)] of every comparison whose result e can be (call, dispatch, or local assigned from them)"""
    s = X.strip(e)
    if s.get("k") == "call":
        cn = X.callee_name(s) or X.dispatch_slot(s) or ""
        if "comp" in cn or "cmp" in cn:
            a = s["ch"][1:]
            if len(a) >= 2:
                return [(a[0], a[1])]
        return []
    out = []
    if s.get("k") == "ref" and s.get("rk") == "local":
        for x in walk(f.body):
            if x.get("k") == "assign" and x.get("op") == "=" and X.strip(x["ch"][0]).get("d") == s["d"]:
                r = _comp_args_all(f, x["ch"][1])
                if not r:
                    return []           # a definition that is not a comparison: not decided
                out += r
            if x.get("k") == "decl":
                for d in x.get("decls", ()):
                    if d["d"] == s["d"] and d.get("init") is not None:
                        r = _comp_args_all(f, d["init"])
                        if not r:
                            return []
                        out += r
    return out


def _comp_args(f, e):
    r = _comp_args_all(f, e)
    return r[0] if r else None


def _own_level(n):
    """nodes of a branch that a `break` at this nesting level belongs to: nested loops and switches are not entered"""
    yield n
    for c in kids(n):
        if c.get("k") in ("for", "while", "do", "switch"):
            continue
        yield from _own_level(c)


def _is_probe(f, e, probes):
    s = X.strip(e)
    while s is not None and s.get("k") in ("member",) and False:
        s = X.strip(s["ch"][0])
    return s is not None and s.get("k") == "ref" and s.get("d") in probes


def ordering_sites(f):
    """[(node, 'asc'|'desc')] normalised direction of every order-dependent decision in f"""
    probes = set()
    for i, p in enumerate(f.params):
        if i >= 1:
            probes.add(p["d"])
    for x in walk(f.body):
        if x.get("k") == "assign" and x.get("op") == "=":
            r = X.strip(x["ch"][1])
            l = X.strip(x["ch"][0])
            if r.get("k") == "call" and classinfo.is_node_ctor(f.unit, X.callee_name(r) or "") and l.get("k") == "ref":
                probes.add(l["d"])
    out = []

    def consider(cond, action, node, negated=False):
        """action: 'advance' (keep walking right) | 'stop' (give up / go left); negated: the action is taken when cond is false"""
        pr = _cmp_pred(cond)
        if pr is None:
            return
        kind, neg, e = pr
        if negated:
            neg = not neg
        if kind == "EQUAL":
            return
        allargs = _comp_args_all(f, e)
        if not allargs:
            return
        sides = {(_is_probe(f, a[0], probes), _is_probe(f, a[1], probes)) for a in allargs}
        if len(sides) != 1:
            return                # the local holds comparisons with the probe on different sides: not decided here
        a0p, a1p = next(iter(sides))
        if a0p == a1p:
            return
        # relation between element and probe when the condition holds
        rel = kind            # relation of arg0 to arg1
        if neg:
            rel = {"GREATER": "LESS", "LESS": "GREATER"}[kind]     # !LESS = GREATER-or-equal: the same direction, non-strict
        if a0p:               # comp(probe, elem): GREATER means probe > elem, i.e. elem < probe
            elem_rel = {"GREATER": "elem<probe", "LESS": "elem>probe"}[rel]
        else:
            elem_rel = {"GREATER": "elem>probe", "LESS": "elem<probe"}[rel]
        if (elem_rel == "elem<probe" and action == "advance") or (elem_rel == "elem>probe" and action == "stop"):
            out.append((node, "asc"))
        else:
            out.append((node, "desc"))
    def branch_actions(br):
        """what taking this branch means for the walk: ['stop'] / ['advance'] / [] (nothing order-dependent recognised)"""
        own = list(_own_level(br))
        acts = [y.get("k") for y in own]
        stores = [y for y in walk(br) if y.get("k") == "assign"]
        ends = set()
        for y in stores:
            if y.get("op") == "=" and _is_probe(f, final_rhs(y), probes):
                for l in store_targets(y):
                    if l.get("k") == "member" and l.get("n") in ("head", "tail") and X.strip(l["ch"][0]).get("rk") == "param":
                        ends.add(l["n"])
        if "break" in acts or ("return" in acts and not stores):
            return ["stop"]
        if ends == {"head"}:
            return ["stop"]         # the new node goes in front of the first element: taken when that element is greater than the probe
        if ends == {"tail"}:
            return ["advance"]
        out_ = []
        # binary search: start = mid + 1 (right) / end = mid - 1 (left)
        for y in own:
            if y.get("k") != "assign":
                continue
            r = X.strip(y["ch"][1])
            if r.get("k") == "bin" and r.get("op") in ("+", "-") and X.const_val(r["ch"][1]) == 1:
                out_.append("advance" if r["op"] == "+" else "stop")
        return out_

    for x in walk(f.body):
        if x.get("k") in ("for", "while") and x.get("cond") is not None:
            for cj in _conjuncts(x["cond"]):
                consider(cj, "advance", x)
        if x.get("k") == "if":
            cjs = _conjuncts(x["cond"])
            branches = [(x["then"], False)]
            if x.get("else") is not None and len(cjs) == 1:
                branches.append((x["else"], True))          # the else branch is taken on the negation of a single test
            for br, negated in branches:
                acts_ = branch_actions(br)
                if not acts_:
                    continue
                for a_ in acts_:
                    for cj in cjs:
                        consider(cj, a_, x, negated)
                break
    return out


def _conjuncts(c):
    c0 = X.strip(c)
    if c0.get("k") == "bin" and c0.get("op") == "&&":
        return _conjuncts(c0["ch"][0]) + _conjuncts(c0["ch"][1])
    return [c]


def short_slot(prog, f):
    """interface slot name the function is installed in (first non-parent slot), or None"""
    for t in prog.class_tables():
        for s_, v in t["slots"].items():
            if v == f.name and not s_.startswith("parent."):
                return s_.split(".")[-1]
    return None


def check_ordering(chk, prog, fns):
    """all order-dependent decisions of the given functions agree on ascending order"""
    n = 0
    for f in fns:
        if True:
            for node, d in ordering_sites(f):
                n += 1
                chk.ob("L6", f.name, "order-direction:" + canon(f, node.get("cond") or node)[:36], d == "asc", loc=f.loc(node),
                       detail="%s decides on the comparison in the opposite direction from the ordered insertion (ascending): with this test a "
                              "search gives up before / walks past the place where the insertion put the element" % f.name,
                       proof="normalises to: keep going while element < probe, stop when element > probe")
    return n


# --------------------------------------------------------------------------- map rules
def check_map_copies(chk, prog, fns):
    """C03: set() stores copies: the key/value parameters (or the fields of a pair parameter) are only ever passed to
    DUP / the copying pair constructor, never stored or deleted"""
    n = 0
    for f in fns:
        n += 1
        pds = {p["d"]: p["n"] for p in f.params[1:]}
        bad = None
        for x in walk(f.body):
            if x.get("k") == "call":
                cn = X.callee_name(x) or X.dispatch_slot(x) or ""
                args = x["ch"][1:]
                for j, a in enumerate(args):
                    s = X.strip(a)
                    if s.get("k") == "ref" and s.get("d") in pds:
                        copying = cn in ("dup",) or "new_from_both" in cn or cn.endswith("_dup") or cn in ("comp", "spif_obj_comp") or "comp" in cn
                        releasing = own.release_kind(x) in ("free", "del")
                        storing = re.search(r"_set_(key|value|data)$|_insert$|_append$|_prepend$", cn) is not None
                        if releasing or (storing and not copying):
                            bad = (x, "passes the caller's %s to %s()" % (pds[s["d"]], cn))
            if x.get("k") == "assign" and x.get("op") == "=":
                r = X.strip(final_rhs(x))
                if r.get("k") == "ref" and r.get("d") in pds:
                    for l in store_targets(x):
                        if l.get("k") in ("member", "index"):
                            bad = (x, "stores the caller's %s pointer" % pds[r["d"]])
        chk.ob("M1", f.name, "stores-copies", bad is None, loc=f.loc(bad[0]) if bad else f.loc(f.body),
               detail="%s %s: the map does not hold its own copy, so changing or deleting the caller's object afterwards changes or "
                      "invalidates what the map returns" % (f.name, bad[1] if bad else ""),
               proof="key/value parameters only reach DUP / the copying pair constructor / comparisons")
    return n


def check_remove_by_equality(chk, prog, fns):
    """C03/C04: in remove functions the node that is unlinked is one that compared EQUAL to the probe"""
    n = 0
    for f in fns:
        if True:
            n += 1
            # every comparison predicate in the function is an (in)equality test: a strict-order exit would pick a neighbour
            bad = None
            for x in walk(f.body):
                cond = None
                if x.get("k") in ("for", "while", "if"):
                    cond = x.get("cond")
                if cond is None:
                    continue
                for cj in _conjuncts(cond):
                    pr = _cmp_pred(cj)
                    if pr is not None and pr[0] != "EQUAL" and _comp_args(f, pr[2]) is not None:
                        bad = x
            chk.ob("M2", f.name, "unlink-on-equality", bad is None, loc=f.loc(bad) if bad else f.loc(f.body),
                   detail="%s selects the node to unlink with an ordering test (%s) rather than equality: a probe that is absent removes its "
                          "neighbour" % (f.name, X.render(bad.get("cond"))[:60] if bad else ""),
                   proof="the search for the node to remove is decided by SPIF_CMP_IS_EQUAL only")
    return n


def check_nullable_data(chk, prog, summ, fns, rule):
    """comparisons dispatched through an element that may be a NULL placeholder (list-interface functions only: vectors and
    maps never hold placeholders)"""
    from .props import C05
    nullable = classinfo.nullable_fields(prog)
    n = 0
    for f in fns:
        if not any(re.search(r"comp$", X.callee_name(c) or X.dispatch_slot(c) or "") for c in X.calls_in(f.body)):
            continue
        n += 1
        before = len(chk.obls)
        C05.check_nullflow(chk, prog, summ, f, nullable, rule)
        # arms that cannot run when the function is reached from the list interface: a helper shared with the map / vector
        # functions that is told by a flag parameter which comparison to make (remove_matching(self, item, data_first)), where
        # every call from a list-interface function passes the same constant for the flag
        dead = []
        names_ = {g_.name for g_ in fns}
        for y in walk(f.body):
            if y.get("k") != "if":
                continue
            c_ = X.strip(y["cond"])
            neg_ = False
            while c_ is not None and c_.get("k") == "un" and c_.get("op") == "!":
                neg_, c_ = not neg_, X.strip(c_["ch"][0])
            if c_ is None or c_.get("k") != "ref" or c_.get("rk") != "param":
                continue
            vals_ = set()
            for g_ in f.unit.functions.values():
                if g_.body is None or g_ is f or g_.name not in names_:
                    continue
                for cc in X.calls_in(g_.body):
                    if X.callee_name(cc) == f.name and c_.get("pi") is not None and c_["pi"] + 1 < len(cc["ch"]):
                        vals_.add(X.const_val(cc["ch"][c_["pi"] + 1]))
            if len(vals_) == 1 and None not in vals_:
                taken_then = bool(vals_.pop()) != neg_
                arm = y.get("else") if taken_then else y.get("then")
                if arm is not None:
                    ls_ = [z.get("l") for z in walk(arm) if z.get("l")]
                    if ls_:
                        dead.append((min(ls_), max(ls_)))
        # keep only the element-data sites; chain pointers are D1's
        keep = []
        for o in chk.obls[before:]:
            m_ = re.search(r":(\d+)$", o.loc or "")
            if m_ and any(a_ <= int(m_.group(1)) <= b_ for a_, b_ in dead):
                continue
            if re.search(r"->data|\[", o.site):
                keep.append(o)
        chk.obls[before:] = keep
        if len(chk.obls) == before:
            chk.ob(rule, f.name, "nullable", True, loc=f.loc(f.body), proof="no dispatch through a possibly-NULL element")
    return n


# --------------------------------------------------------------------------- POS: index arithmetic through ghost positions
def slotfn(prog, unit, ttype, slot):
    """the function installed in `slot` of the class table of type spif_<ttype>class_t in `unit`"""
    for t in prog.class_tables():
        if ttype in t["type"]:
            for s, v in t["slots"].items():
                if isinstance(v, str) and s.split(".")[-1] == slot:
                    f = prog.fn(v)
                    if f is not None and f.unit.name == unit:
                        return f
    return None


def unit_effects(prog, unit):
    """(mutators: name -> len delta or None, pure: names) for calls that pass self on"""
    u = prog.units[unit]
    known = {}
    for slot, d in (("append", 1), ("prepend", 1), ("insert", 1)):
        f = slotfn(prog, unit, "list", slot)
        if f is not None:
            known[f.name] = d
    impure = set(known)
    for f in u.functions.values():
        for x in walk(f.body):
            if x.get("k") == "assign" or (x.get("k") == "un" and x.get("op") in ("++", "--")):
                l = X.strip(x["ch"][0])
                while l is not None and l.get("k") in ("member", "index") or (l is not None and l.get("k") == "un" and l.get("op") == "*"):
                    l = X.strip(l["ch"][0])
                    if l is not None and l.get("k") == "ref" and l.get("rk") == "param":
                        impure.add(f.name)
            if x.get("k") == "call" and (X.callee_name(x) or "") in ("realloc", "spifmem_realloc", "free", "spifmem_free", "memmove", "memset", "memcpy"):
                impure.add(f.name)
    changed = True
    while changed:
        changed = False
        for f in u.functions.values():
            if f.name in impure:
                continue
            for c in X.calls_in(f.body):
                if (X.callee_name(c) or "") in impure:
                    impure.add(f.name)
                    changed = True
                    break
    mut = {n: known.get(n) for n in impure}
    pure = set(u.functions) - impure
    return mut, pure


def position_decl(f, pd):
    """the variable that carries the position through the function: the parameter itself, or - when the parameter is never
    written and is only ever read to initialise one local (`pos = idx;`) - that local"""
    copies, other = set(), 0
    for x in walk(f.body):
        if x.get("k") == "assign" or (x.get("k") == "un" and x.get("op") in ("++", "--", "&")):
            t = X.strip(x["ch"][0])
            if t is not None and t.get("k") == "ref" and t.get("d") == pd:
                return pd
    for x in walk(f.body):
        if x.get("k") == "ref" and x.get("d") == pd:
            par = f.parent.get(x["i"])
            while par is not None and par.get("k") in ("paren", "icast", "cast"):
                par = f.parent.get(par["i"])
            if par is not None and par.get("k") == "assign" and par.get("op") == "=" and X.strip(par["ch"][1]) is x and \
                    (X.strip(par["ch"][0]) or {}).get("k") == "ref" and X.strip(par["ch"][0]).get("rk") == "local":
                copies.add(X.strip(par["ch"][0])["d"])
            elif par is not None and par.get("k") == "decl" and any(dc.get("init") is not None and X.strip(dc["init"]) is x for dc in par.get("decls", ())):
                copies.update(dc["d"] for dc in par.get("decls", ()) if dc.get("init") is not None and X.strip(dc["init"]) is x)
            else:
                other += 1
    if len(copies) == 1 and other == 0:
        return next(iter(copies))
    return pd


def _norm_rule(chk, f, idxd, prog=None, unit=None):
    """N1: negative positions count from the end.  Decided with GHOSTPOS in the scenario `the position argument is negative`
    (a ghost symbol g0 holds the argument's value on entry): wherever the function reads the position variable other than to
    test its sign or to compute its own new value, the variable provably holds g0 + len.  However the normalisation is written
    (`if (idx < 0) idx += len`, a conditional expression, a value-returning helper inlined by the front end) it is recognised by
    what it establishes."""
    from .ghostpos import GhostPos, show
    from .lin import Lin, entails, feasible
    mut, pure = unit_effects(prog, unit) if prog is not None else ({}, set())
    g = GhostPos(f, prog, mutators=mut, pure=pure)
    pard = idxd
    idxd = position_decl(f, pard)          # the local the position was copied into, if the parameter is only copied
    vpar = Lin.sym("v%d" % pard)
    v, g0, L, L0 = Lin.sym("v%d" % idxd), Lin.sym("g0"), Lin.sym("len"), Lin.sym("l0")
    nassign = sum(1 for x in walk(f.body) if (x.get("k") == "assign" and (X.strip(x["ch"][0]) or {}).get("d") == idxd) or
                  (x.get("k") == "un" and x.get("op") in ("++", "--") and (X.strip(x["ch"][0]) or {}).get("d") == idxd))
    if g.cfg is None or idxd not in g.intvars:
        chk.ob("N1", f.name, "negative-index-normalised", False, loc=f.loc(f.body), detail="%s: position parameter not found" % f.name)
        return None
    g.run(init=[L, vpar - g0, g0 - vpar, -g0 - 1, L - L0, L0 - L])     # l0: the length on entry (len itself changes in insert_at)
    bad = []
    nuse = [0]

    def vis(st, n, blk):
        if n.get("k") != "ref" or n.get("d") != idxd:
            return
        if idxd != pard and not any(c_.coef("v%d" % idxd) for c_ in st):
            return          # the copy has not been made yet (its own declaration)
        # context of this read
        cur, par = n, f.parent.get(n["i"])
        while par is not None:
            k = par.get("k")
            if k == "assign":
                l = X.strip(par["ch"][0])
                if l is not None and l.get("k") == "ref" and l.get("d") == idxd:
                    return                      # computing the variable's own new value (or the target itself)
                break
            if k == "bin" and par.get("op") in ("<", ">", "<=", ">=", "==", "!=") and (X.const_val(par["ch"][0]) in (0, -1) or X.const_val(par["ch"][1]) in (0, -1)) \
                    and X.strip(par["ch"][0] if X.const_val(par["ch"][1]) in (0, -1) else par["ch"][1]) is X.strip(cur):
                if entails(list(st), v - g0) and entails(list(st), g0 - v):
                    return                      # a test of the raw argument's sign
                break
            if k == "un" and par.get("op") == "&":
                return                          # the variable's address is handed to a helper: not a read of its value
            if k in ("if", "while", "for", "do", "return", "block", "exprstmt", "call", "decl"):
                break
            cur, par = par, f.parent.get(par["i"])
        if not feasible(list(st)):
            return
        nuse[0] += 1
        right = entails(list(st), v - g0 - L0) and entails(list(st), g0 + L0 - v)
        raw = entails(list(st), v - g0) and entails(list(st), g0 - v)
        # the raw negative argument is used; or the only assignment the variable ever gets did not make it argument + len
        if raw or (not right and nassign <= 1):
            bad.append((n, st))
    g.visit(vis)
    ok = not bad and nuse[0] > 0
    chk.ob("N1", f.name, "negative-index-normalised", ok, loc=f.loc(bad[0][0]) if bad else f.loc(f.body),
           detail="%s uses its position argument without having added self->len to a negative value (state with a negative argument g0: "
                  "%s): positions counted from the end are misplaced or refused" % (f.name, show(bad[0][1])[:160] if bad else "no use found"),
           proof="in the scenario idx < 0, every use of the position sees idx == argument + len (%d uses)" % nuse[0])
    return ok


def check_positions(chk, prog, unit):
    from .ghostpos import GhostPos, show
    from .lin import Lin
    mut, pure = unit_effects(prog, unit)
    linked = unit != "array.c"
    n_ob = [0]

    def engine(f, no_havoc=False):
        g = GhostPos(f, prog, mutators=mut, pure=pure)
        if no_havoc:
            g.havoc_ptrs = lambda cons, keep=None: cons
        g.run()
        return g

    n_und = [0]

    def ob(g, st, rule, f, site, ok, node, detail, proof, exprs=()):
        """an obligation that fails only because it depends on a value produced by code this analysis has no model of (a walk
        moved into a helper, an accessor call) is undecided: counted, never reported"""
        if not ok:
            sts = st if isinstance(st, list) else [st]
            if any(g.tainted(s_) for s_ in sts if s_ is not None) or any(g.mentions_unknown(e) for e in exprs) or g.mentions_unknown(node):
                n_und[0] += 1
                return
        n_ob[0] += 1
        chk.ob(rule, f.name, site, ok, loc=f.loc(node), detail=detail, proof=proof)

    def null_arm_sites(f):
        """node id -> representative node for every place a NULL/FALSE/-1 refusal value is produced for return"""
        sites = {}
        for x in walk(f.body):
            if x.get("k") == "return" and x.get("val") is not None:
                v = X.strip(x["val"])
                if v.get("k") == "cond":
                    for arm in (v["ch"][1], v["ch"][2]):
                        cv = X.const_val(arm)
                        if X.is_null_const(arm) or cv in (0, -1):
                            for y in walk(arm):
                                sites[y["i"]] = (arm, cv)
                else:
                    cv = X.const_val(x["val"])
                    if X.is_null_const(x["val"]) or cv in (0, -1):
                        sites[x["i"]] = (x, cv)
        return sites

    def idx_sym(f, pi):
        return Lin.sym("v%d" % position_decl(f, f.params[pi]["d"]))

    L = Lin.sym("len")

    def fatal_by_position(g, f, idx, upper):
        """P4: no exit of the process is decided by the position: a call of the fatal-error routine reached only when idx is out of
        range (an ASSERT where a refusal belongs) ends the program - or, compiled without assertions, lets the bad position
        through - where the ideal sequence just refuses."""
        def v(st, n, blk):
            if n.get("k") == "call" and X.callee_name(n) in NORETURN:
                inr = [idx] + ([L - 1 - idx] if upper else [])
                if not g.compatible(st, inr):
                    ob(g, st, "P4", f, "position-decides-fatal-exit", False, n,
                       "%s ends the process (fatal assertion) exactly when the position is out of range (state: %s): the other "
                       "implementations refuse such a position and carry on, and a build without assertions does not check it at all" % (
                           f.name, show(st)[:160]), "")
        g.visit(v)

    # ---- insert_at
    f = slotfn(prog, unit, "list", "insert_at")
    if f is not None:
        idx = idx_sym(f, 2)
        _norm_rule(chk, f, f.params[2]["d"], prog, unit)
        objd = f.params[1]["d"]
        g = engine(f)
        payload = set()
        payload_sites = {}          # local -> nodes that give it the caller's element (the same local may hold padding nodes before)
        for x in walk(f.body):
            if x.get("k") == "call" and re.search(r"_item_set_data$", X.callee_name(x) or ""):
                a = x["ch"][1:]
                if len(a) == 2 and X.strip(a[1]).get("d") == objd and X.strip(a[0]).get("k") == "ref":
                    payload.add(X.strip(a[0])["d"])
                    payload_sites.setdefault(X.strip(a[0])["d"], []).append(x)
            if x.get("k") == "assign" and x.get("op") == "=":
                l, r = X.strip(x["ch"][0]), X.strip(x["ch"][1])
                if l.get("k") == "member" and l.get("n") == "data" and r.get("d") == objd and X.strip(l["ch"][0]).get("k") == "ref":
                    payload.add(X.strip(l["ch"][0])["d"])
                    payload_sites.setdefault(X.strip(l["ch"][0])["d"], []).append(x)

        def holds_payload(d, at):
            """the local was given the element on every path to this store (the hand-over dominates it)"""
            return any(g.cfg.node_dominates(s_["i"], at["i"]) for s_ in payload_sites.get(d, ()))
        app = slotfn(prog, unit, "list", "append")
        pre = slotfn(prog, unit, "list", "prepend")
        refusals = null_arm_sites(f)
        done = set()

        def v_ins(st, n, blk):
            if n.get("k") == "call":
                cn = X.callee_name(n) or ""
                a = n["ch"][1:]
                if len(a) >= 2 and X.strip(a[1]).get("d") == objd and g.is_self(a[0]):
                    if app is not None and cn == app.name:
                        ok = g.proves_eq(st, idx, L)
                        ob(g, st, "P1", f, "append-delegation-at-end", ok, n,
                           "%s hands the element to %s() on a path where the normalised position is not known to equal the length "
                           "(state: %s): the element lands at the end instead of at idx" % (f.name, cn, show(st)[:160]),
                           "idx == len entailed at the call")
                    if pre is not None and cn == pre.name:
                        ok = g.proves_eq(st, idx, Lin.const(0))
                        ob(g, st, "P1", f, "prepend-delegation-at-zero", ok, n,
                           "%s hands the element to %s() on a path where the normalised position is not known to be 0 (state: %s): "
                           "the element lands in front (and no NULL placeholders are created) instead of at idx" % (f.name, cn, show(st)[:160]),
                           "idx == 0 entailed at the call")
            if n.get("k") == "assign" and n.get("op") == "=":
                r = X.strip(final_rhs(n))
                if r.get("k") == "ref" and r.get("d") in payload and holds_payload(r["d"], n):
                    for l in store_targets(n):
                        if l.get("k") == "member" and l.get("n") == "next":
                            p = g.pos(l["ch"][0])
                            ok = p is not None and g.proves_eq(st, p + 1, idx)
                            ob(g, st, "P1", f, "splice-position:" + canon(f, l)[:30], ok, n,
                               "%s links the new node after %s, whose position is not provably idx-1 (state: %s): the element is "
                               "inserted at the wrong place" % (f.name, X.render(l["ch"][0])[:30], show(st)[:200]),
                               "position(%s) + 1 == idx entailed" % X.render(l["ch"][0])[:30])
                        if g.self_field(l) == "head":
                            ok = g.proves_eq(st, idx, Lin.const(0))
                            ob(g, st, "P1", f, "head-splice-at-zero", ok, n, "%s makes the new node the head although idx is not known to be 0" % f.name, "idx == 0")
                if linked is False:
                    l0 = X.strip(n["ch"][0])
                    if l0.get("k") == "index" and g.self_field(l0["ch"][0]) == "items" and X.strip(n["ch"][1]).get("d") == objd:
                        e = g.lin(l0["ch"][1])
                        ok = e is not None and g.proves_eq(st, e, idx)
                        ob(g, st, "P1", f, "store-position", ok, n, "%s stores the element at %s, not provably idx" % (f.name, X.render(l0)[:30]), "slot index == idx")
            if n["i"] in refusals and refusals[n["i"]][0]["i"] not in done:
                arm, cv = refusals[n["i"]]
                done.add(arm["i"])
                sts_ = g.states_before(n["i"])
                ok = all(not g.compatible(s_, [idx]) for s_ in sts_)
                ob(g, sts_, "P4", f, "refuses-only-negative", ok, arm,
                   "%s can return FALSE although the normalised position is >= 0 (state: %s): an insertion the ideal sequence "
                   "accepts is refused" % (f.name, show(st)[:200]), "the refusing return is unreachable with idx >= 0")
        g.visit(v_ins)
        fatal_by_position(g, f, idx, False)

    # ---- get / remove_at
    for slot in ("get", "remove_at"):
        f = slotfn(prog, unit, "list", slot)
        if f is None:
            continue
        idx = idx_sym(f, 1)
        _norm_rule(chk, f, f.params[1]["d"], prog, unit)
        g = engine(f, no_havoc=(slot == "remove_at"))
        refusals = null_arm_sites(f)
        done = set()

        def v_get(st, n, blk, f=f, g=g, idx=idx, slot=slot, refusals=refusals, done=done):
            tgt = None
            if slot == "get":
                if n.get("k") == "member" and n.get("n") == "data" and n.get("arrow"):
                    par = f.parent.get(n["i"])
                    if not (par is not None and par.get("k") == "assign" and par["ch"][0] is n):
                        tgt = g.pos(n["ch"][0])
                        what = X.render(n["ch"][0])
                if n.get("k") == "call" and re.search(r"_item_get_data$", X.callee_name(n) or ""):
                    tgt = g.pos(n["ch"][1])
                    what = X.render(n["ch"][1])
                if n.get("k") == "index" and g.self_field(n["ch"][0]) == "items":
                    tgt = g.lin(n["ch"][1])
                    what = X.render(n)
                if tgt is not None or (n.get("k") == "index" and g.self_field(n["ch"][0]) == "items"):
                    ok = tgt is not None and g.proves_eq(st, tgt, idx)
                    ob(g, st, "P2", f, "returns-element-at-idx", ok, n,
                       "%s reads the element through %s, whose position is not provably idx (state: %s): a neighbour is returned" % (
                           f.name, what[:30], show(st)[:200]), "position == idx entailed")
            else:
                if n.get("k") == "call" and re.search(r"_item_del$", X.callee_name(n) or ""):
                    tgt = g.pos(n["ch"][1])
                    ok = tgt is not None and g.proves_eq(st, tgt, idx)
                    ob(g, st, "P3", f, "removes-node-at-idx", ok, n,
                       "%s deletes %s, whose position before the unlink is not provably idx (state: %s)" % (f.name, X.render(n["ch"][1])[:30], show(st)[:200]),
                       "position == idx entailed")
                if n.get("k") == "assign" and n.get("op") == "=" and not linked:
                    r = X.strip(n["ch"][1])
                    if r.get("k") == "index" and g.self_field(r["ch"][0]) == "items":
                        e = g.lin(r["ch"][1])
                        ok = e is not None and g.proves_eq(st, e, idx)
                        ob(g, st, "P3", f, "removes-slot-at-idx", ok, n, "%s takes out %s, not provably slot idx" % (f.name, X.render(r)[:30]), "slot == idx")
            if n["i"] in refusals and refusals[n["i"]][0]["i"] not in done:
                arm, cv = refusals[n["i"]]
                done.add(arm["i"])
                sts_ = g.states_before(n["i"])
                ok = all(not g.compatible(s_, [idx, L - 1 - idx]) for s_ in sts_)
                ob(g, sts_, "P4", f, "refuses-only-out-of-range", ok, arm,
                   "%s can return NULL although 0 <= idx < len (state: %s): a position the ideal sequence has is refused" % (f.name, show(st)[:200]),
                   "the NULL result is unreachable with idx in range")
        g.visit(v_get)
        fatal_by_position(g, f, idx, True)

    # ---- index: the reported position is the position of the matching node
    f = slotfn(prog, unit, "list", "index")
    if f is not None and linked:
        g = engine(f)

        def v_idx(st, n, blk):
            if n.get("k") == "return" and n.get("val") is not None:
                return
            par = f.parent.get(n["i"])
            while par is not None and par.get("k") in ("paren", "icast", "cast"):
                par = f.parent.get(par["i"])
            if n.get("k") == "ref" and n.get("d") in g.intvars and par is not None and par.get("k") == "cond" and X.strip(par["ch"][1]) is n:
                c = X.strip(par["ch"][0])
                p = g.pos(c)
                ok = p is not None and g.proves_eq(st, Lin.sym("v%d" % n["d"]), p)
                ob(g, st, "P5", f, "index-is-position", ok, n, "%s reports a counter that is not provably the position of the matching node (state: %s)" % (
                    f.name, show(st)[:200]), "counter == position(node)")
        g.visit(v_idx)

    # ---- to_array: slot i receives node i
    f = slotfn(prog, unit, "list", "to_array")
    if f is not None and linked:
        g = engine(f)

        def v_arr(st, n, blk):
            if n.get("k") == "assign" and n.get("op") == "=":
                l = X.strip(n["ch"][0])
                if l.get("k") == "index":
                    e = g.lin(l["ch"][1])
                    src = None
                    rhs = n["ch"][1]
                    r0 = X.strip(rhs)
                    if r0 is not None and r0.get("k") == "ref" and r0.get("rk") == "local" and blk is not None:
                        # the payload was first copied into a local: its defining assignment earlier in the same basic block,
                        # with the node pointer it was read through unchanged since
                        els = [f.nodes.get(e_) for e_ in blk.el]
                        els = els[:next((k_ for k_, y in enumerate(els) if y is n), 0)]
                        for k_ in range(len(els) - 1, -1, -1):
                            y = els[k_]
                            if y is None:
                                continue
                            dl, dr = None, None
                            if y.get("k") == "assign" and y.get("op") == "=":
                                dl, dr = X.strip(y["ch"][0]), y["ch"][1]
                            elif y.get("k") == "decl":
                                for dcl in y.get("decls", ()):
                                    if dcl["d"] == r0["d"] and dcl.get("init") is not None:
                                        dl, dr = {"k": "ref", "d": dcl["d"]}, dcl["init"]
                            if dl is not None and dl.get("k") == "ref" and dl.get("d") == r0["d"]:
                                ptrs = {z["d"] for z in walk(dr) if z.get("k") == "ref" and z.get("d") in g.ptrvars}
                                later = els[k_ + 1:]
                                if not any(z is not None and z.get("k") == "assign" and X.strip(z["ch"][0]).get("d") in ptrs for z in later):
                                    rhs = dr
                                break
                    for y in walk(rhs):
                        if y.get("k") == "call" and re.search(r"_item_get_data$", X.callee_name(y) or ""):
                            src = g.pos(y["ch"][1])
                        if y.get("k") == "member" and y.get("n") == "data":
                            src = g.pos(y["ch"][0])
                    ok = e is not None and src is not None and g.proves_eq(st, e, src)
                    ob(g, st, "P5", f, "to-array-slot-is-position", ok, n, "%s fills a slot whose index is not provably the node's position (state: %s)" % (
                        f.name, show(st)[:200]), "slot == position(node)")
        g.visit(v_arr)
    return n_ob[0]


def check_chain_derefs(chk, prog, unit, only=None):
    """D1: every dereference of a node pointer reached through the chain (X->next->f, self->tail->f, a walked local) is
    provably inside the chain: 0 <= ghost position <= len-1 (or the local was tested / freshly created)"""
    from .ghostpos import GhostPos, show
    from .lin import Lin
    mut, pure = unit_effects(prog, unit)
    u = prog.units[unit]
    L = Lin.sym("len")
    nsites = 0
    nfn = 0
    for f in u.functions.values():
        rec = classinfo.rec_of_param(f, 0) or ""
        if not re.search(r"list_t_struct$", rec) or "iterator" in rec or "item" in rec or (only is not None and f.name not in only):
            continue
        g = GhostPos(f, prog, mutators=mut, pure=pure)
        if not g.ptrvars and not any(x.get("k") == "member" and x.get("n") in ("head", "tail") for x in walk(f.body)):
            continue
        g.run()
        nfn += 1
        seen = {}
        # the plain nullness facts (a pointer tested on the way: `if (node->prev) node->prev->next = ..` inside a helper that is
        # handed a node whose position it does not know)
        tested = {}
        try:
            from . import nullness, flow
            ncfg = nullness.prepared_cfg(f, {"libast_fatal_error"})
            flow.forward(ncfg, frozenset(), nullness.transfer, refine=nullness.refine,
                         visit=lambda st_, n_, b_, tested=tested: tested.__setitem__(n_["i"], st_) if n_.get("k") == "member" else None)
        except Exception:
            tested = {}

        def v(st, n, blk, f=f, g=g, seen=seen, tested=tested):
            if n.get("k") != "member" or not n.get("arrow"):
                return
            base = X.strip(n["ch"][0])
            if base is None or g.is_self(base):
                return
            isnode = (base.get("k") == "ref" and (base.get("d") in g.ptrvars or base.get("d") in g.foreign)) or g.self_field(base) in ("head", "tail") or \
                     (base.get("k") == "member" and base.get("n") in ("next", "prev"))
            if not isnode:
                return
            if base.get("k") == "ref" and (base.get("d") in g.fresh_nodes or base.get("d") in g.foreign):
                return
            if base.get("k") == "member" and X.strip(base["ch"][0]).get("d") in g.foreign:
                return
            ok = g.known_nonnull(st, base)
            if not ok and g.tainted(st):
                ok = True             # reached through a test this analysis has no model of: undecided, not reported
            if not ok and g.pos(base) is None and X.apath(base) is not None and ("nn", X.apath(base)) in tested.get(n["i"], ()):
                ok = True             # (only where the position analysis has nothing to say about the pointer)
            key = canon(f, n)
            prev = seen.get(key)
            if prev is None or (prev[0] and not ok):
                seen[key] = (ok, n, show(st)[:200])
        g.visit(v)
        for key, (ok, n, stxt) in sorted(seen.items()):
            nsites += 1
            chk.ob("D1", f.name, "in-chain:" + key[:40], ok, loc=f.loc(n),
                   detail="%s dereferences %s where it is not provably a node of the chain (state: %s): with the list in a state the "
                          "interface can produce this is a NULL dereference" % (f.name, X.render(n["ch"][0])[:40], stxt),
                   proof="0 <= position <= len-1 entailed, or the pointer was tested non-NULL")
    return nfn, nsites


# --------------------------------------------------------------------------- scope helpers and iterator rules
IFACE = {"list": "spif_listclass_t", "vector": "spif_vectorclass_t", "map": "spif_mapclass_t", "iterator": "spif_iteratorclass_t"}
PARENT_SLOTS = {"noo", "init", "done", "del", "show", "comp", "dup", "type", "classname"}


def iface_functions(prog, iface, units=UNITS, with_parent=False):
    """functions installed in interface slots of tables of this interface, plus their unit-local callees"""
    out = []
    for t in prog.class_tables():
        if IFACE[iface] not in t["type"] or t.get("unit") not in units:
            continue
        for s, v in t["slots"].items():
            if not isinstance(v, str):
                continue
            short = s.split(".")[-1]
            if s.startswith("parent.") and not with_parent:
                continue
            f = prog.fn(v)
            if f is not None and f not in out:
                out.append(f)
    # unit-local helpers reached from them (contains -> find, has_key -> map_get)
    changed = True
    while changed:
        changed = False
        for f in list(out):
            for c in X.calls_in(f.body):
                g = f.unit.functions.get(X.callee_name(c) or "")
                if g is not None and g not in out and g.unit is f.unit and not re.search(r"_item_|_iterator", g.name) and \
                        not re.search(r"_(new|init|done|del|show|comp|dup|type)$", g.name):
                    out.append(g)
                    changed = True
    return out


def check_iterators(chk, prog, units=UNITS):
    """I1 the cursor starts at the first element; I2 next() hands back the element under the cursor as it was on entry and
    leaves the cursor exactly one element further on every successful path; I3 has_next() is true exactly while the cursor is
    inside the sequence.  Decided with the GHOSTPOS engine: the cursor field is a symbol (`cur` for an index cursor, the
    ghost position `pc` for a node cursor), locals copied from it are tracked exactly, so the verdict does not depend on how
    the function is written (temporaries, `x = x + 1`, a conditional expression as the return value)."""
    from .ghostpos import GhostPos
    from .lin import Lin, entails
    n = 0
    for t in prog.class_tables():
        if IFACE["iterator"] not in t["type"] or t.get("unit") not in units:
            continue
        slots = {s_.split(".")[-1]: prog.fn(v) for s_, v in t["slots"].items() if isinstance(v, str)}
        init, nxt, has = slots.get("init"), slots.get("next"), slots.get("has_next")
        if init is None or nxt is None or has is None:
            raise AnalysisBroken("iterator table %s lacks init/next/has_next" % t.get("var"))
        n += 1
        # the cursor field: the field of self that next() stores to
        cur = None
        for x in walk(nxt.body):
            if x.get("k") in ("assign", "un") and x.get("op") in ("=", "+=", "++", "-=", "--"):
                l = X.strip(x["ch"][0])
                if l.get("k") == "member" and l.get("arrow"):
                    b = X.strip(l["ch"][0])
                    if b.get("rk") == "param" and b.get("pi") == 0:
                        cur = l["n"]
        chk.ob("I2", nxt.name, "advances-cursor", cur is not None, loc=nxt.loc(nxt.body),
               detail="%s never moves the iterator's cursor: iteration yields the first element forever" % nxt.name, proof="a store to the cursor field exists")
        if cur is None:
            continue
        index_cursor = cur.endswith("index")
        CUR = Lin.sym("cur")

        class IterPos(GhostPos):
            """self is the iterator: `cur` is the cursor (an index, or the ghost position of the node it points at); `len` is
            the subject's length"""
            def is_cur(self, e):
                s_ = X.strip(e)
                return s_ is not None and s_.get("k") == "member" and s_.get("n") == cur and self.is_self(s_["ch"][0])

            def lin(self, e):
                s_ = X.strip(e)
                if index_cursor and self.is_cur(s_):
                    return CUR
                if s_ is not None and s_.get("k") == "member" and s_.get("n") == "len":
                    return Lin.sym("len")
                return GhostPos.lin(self, e)

            def pos(self, e):
                s_ = X.strip(e)
                if not index_cursor and self.is_cur(s_):
                    return CUR
                if s_ is not None and s_.get("k") == "member" and s_.get("n") == "head" and not self.is_self(s_["ch"][0]):
                    return Lin.const(0)
                return GhostPos.pos(self, e)

            def ptr_fact(self, cons, e, isnull):
                s_ = X.strip(e)
                if not index_cursor and self.is_cur(s_):
                    # a node cursor walks forwards only: NULL means it ran off the end
                    L_ = Lin.sym("len")
                    return [CUR - L_, L_ - CUR] if isnull else [CUR, L_ - 1 - CUR]
                if s_ is not None and s_.get("k") == "ref" and s_.get("d") in self.ptrvars:
                    return GhostPos.ptr_fact(self, cons, e, isnull)
                return None if isnull else []          # NULL iterator / subject: refusals outside the protocol

            def transfer(self, cons, x, blk=None):
                if x.get("k") == "assign" and self.is_cur(x["ch"][0]):
                    op = x.get("op")
                    rc_ = X.strip(x["ch"][1])
                    if op == "=" and rc_ is not None and rc_.get("k") == "cond":
                        # cursor = (c ? a : b): each arm under its test, joined (the arm for a NULL subject is outside the protocol)
                        outs_ = []
                        for truth_, arm_ in ((True, rc_["ch"][1]), (False, rc_["ch"][2])):
                            st_ = self.refine(cons, rc_["ch"][0], truth_)
                            if st_ is None:
                                continue
                            outs_.append(self.assign_sym(st_, "cur", (self.lin if index_cursor else self.pos)(arm_)))
                        if outs_:
                            res_ = outs_[0]
                            for o_ in outs_[1:]:
                                res_ = self.join(res_, o_, False)
                            return res_
                    r = (self.lin if index_cursor else self.pos)(x["ch"][1])
                    if op == "=":
                        return self.assign_sym(cons, "cur", r)
                    if op in ("+=", "-=") and index_cursor and r is not None:
                        return self.assign_sym(cons, "cur", CUR + r if op == "+=" else CUR - r)
                    return self.assign_sym(cons, "cur", None)
                if x.get("k") == "un" and x.get("op") in ("++", "--") and self.is_cur(x["ch"][0]):
                    return self.assign_sym(cons, "cur", CUR + (1 if x["op"] == "++" else -1))
                return GhostPos.transfer(self, cons, x, blk)

        C0 = Lin.sym("cur0")
        entry = [Lin.sym("len"), CUR - C0, C0 - CUR, C0]
        # ---- I1
        gi = IterPos(init, prog)
        gi.run([Lin.sym("len")])
        ok1 = []

        def v1(st, x, blk):
            if x.get("k") == "return" and x.get("val") is not None and X.const_val(x["val"]) == 1:
                ok1.append(entails(list(st), CUR) and entails(list(st), -CUR))
        gi.visit(v1)
        chk.ob("I1", init.name, "starts-at-first", bool(ok1) and all(ok1), loc=init.loc(init.body),
               detail="%s does not leave the cursor (%s) on the first element (%s) on every successful path" % (
                   init.name, cur, "index 0" if index_cursor else "subject->head"), proof="cursor == first element entailed at the successful return")
        # ---- I2
        gn = IterPos(nxt, prog)
        gn.run(entry)
        step, read = [], []

        def v2(st, x, blk):
            if x.get("k") == "return" and x.get("val") is not None and X.const_val(x["val"]) is None and not X.is_null_const(x["val"]):
                step.append((x, GhostPos.proves_eq(st, CUR, C0 + 1), gn.tainted(st)))
            # the element read: get(subject, E) / E->data
            tgt = None
            if x.get("k") == "call" and re.search(r"_get$", X.callee_name(x) or "") and len(x["ch"]) >= 3:
                tgt = gn.lin(x["ch"][2])
            if x.get("k") == "member" and x.get("n") == "data" and x.get("arrow"):
                par = nxt.parent.get(x["i"])
                if not (par is not None and par.get("k") == "assign" and par["ch"][0] is x):
                    tgt = gn.pos(x["ch"][0])
            if x.get("k") == "call" and re.search(r"_item_get_data$", X.callee_name(x) or ""):
                tgt = gn.pos(x["ch"][1])
            if tgt is not None:
                read.append((x, GhostPos.proves_eq(st, tgt, C0)))
        gn.visit(v2)
        bad = [x for x, ok, und in step if not ok and not und]
        chk.ob("I2", nxt.name, "one-step-per-call", bool(step) and not bad, loc=nxt.loc(bad[0]) if bad else nxt.loc(nxt.body),
               detail="%s does not leave the cursor exactly one element past where it was on every successful path: elements are skipped "
                      "or repeated" % nxt.name, proof="cursor == cursor-on-entry + 1 entailed at every successful return")
        badr = [x for x, ok in read if not ok]
        chk.ob("I2", nxt.name, "yields-element-under-cursor", not badr, loc=nxt.loc(badr[0]) if badr else nxt.loc(nxt.body),
               detail="%s reads an element other than the one the cursor pointed at on entry (e.g. it advances first): an element is skipped" % nxt.name,
               proof="%d element read(s) at the entry position" % len(read))
        # ---- I3
        gh = IterPos(has, prog)
        gh.run([Lin.sym("len"), CUR] if index_cursor else [Lin.sym("len"), CUR, Lin.sym("len") - CUR])
        Ln = Lin.sym("len")
        rets = []

        def v3(st, x, blk):
            if x.get("k") == "return" and x.get("val") is not None:
                val = x["val"]
                cv = X.const_val(val)
                if cv is not None:
                    cases = [(bool(cv), gh.states_before(x["i"]))]
                else:
                    cases = []
                    for truth in (True, False):
                        r = [gh.refine(s_, val, truth) for s_ in gh.states_before(x["i"])]
                        cases.append((truth, [s_ for s_ in r if s_ is not None]))
                for truth, sts in cases:
                    if not sts:
                        continue
                    if truth:
                        ok = all(entails(list(s_), Ln - 1 - CUR) for s_ in sts)
                        why = "TRUE although the cursor is not known to be inside the sequence"
                    else:
                        ok = all(not gh.compatible(s_, [Ln - 1 - CUR, CUR]) for s_ in sts)
                        why = "FALSE although the cursor may still be inside the sequence"
                    rets.append((x, truth, ok, why))
        gh.visit(v3)
        answers = {t_ for _, t_, _, _ in rets}
        chk.ob("I3", has.name, "has-both-answers", answers == {True, False}, loc=has.loc(has.body),
               detail="%s cannot answer both TRUE and FALSE about the cursor" % has.name, proof="a TRUE and a FALSE outcome decided by the cursor")
        for x, truth, ok, why in rets:
            chk.ob("I3", has.name, "exhaustion-exact:%s" % ("TRUE" if truth else "FALSE"), ok, loc=has.loc(x),
                   detail="%s answers %s: exhaustion is reported at the wrong time (exactly after count elements is required)" % (has.name, why),
                   proof="the answer follows from the cursor test")
    return n


def check_dup_backlinks(chk, prog, unit="dlinked_list.c", only=None, rule="L7"):
    """L7: in the doubly linked dup functions (and the unit-local helpers they hand the copying to) every node the copy acquires
    after the head (X->next = item_dup(..)) has its prev link stored before the function returns - as (X->next)->prev while it is
    still reached through X, or as Y->prev after a cursor Y has moved onto it.  A missing back link only shows when the copy is
    walked from its tail."""
    u = prog.units[unit]
    n = 0
    for f0 in u.functions.values():
        if not re.search(r"_dup$", f0.name) or "_item_" in f0.name or "iterator" in f0.name or (only is not None and f0.name not in only):
            continue
        any_creation = False
        bad = []
        for f in unit_closure(f0):
            if f.cfg is None or re.search(r"_item_(new|init|done|del|show|comp|dup|type|get_data|set_data)$", f.name):
                continue            # the node class's own methods; a helper that copies a chain of nodes is part of the dup
            cfg = nullness.prepared_cfg(f, NORETURN)
            creations = []

            def key_of(e, f=f):
                return canon(f, X.strip(e))

            def transfer(state, x, blk, creations=creations, key_of=key_of):
                if x.get("k") == "assign" and x.get("op") == "=":
                    l, r = X.strip(x["ch"][0]), X.strip(x["ch"][1])
                    st = set(state)
                    # creation through a next link
                    if l.get("k") == "member" and l.get("n") == "next" and r is not None and r.get("k") == "call" and (re.search(r"_item_dup$", X.callee_name(r) or "") or classinfo.is_node_ctor(f.unit, X.callee_name(r) or "")):
                        st.add(("pending", key_of(l)))
                        creations.append(x)
                        return frozenset(st)
                    # back link stored
                    if l.get("k") == "member" and l.get("n") == "prev":
                        k_ = key_of(l["ch"][0])
                        st = {t for t in st if not (t[0] == "pending" and t[1] == k_)}
                        return frozenset(st)
                    # a cursor moves:  Y = E  renames pending(E) to pending(Y) (and what was pending under Y->.. is out of reach)
                    if l.get("k") == "ref" and l.get("rk") == "local":
                        ky, ke = key_of(l), key_of(r) if r is not None else None
                        st2 = set()
                        for t in st:
                            if t[0] == "pending" and t[1] == ke:
                                st2.add(("pending", ky))
                            else:
                                st2.add(t)
                        return frozenset(st2)
                return state

            def visit(state, x, blk, f=f):
                if x.get("k") == "return" and not (x.get("val") is not None and X.is_null_const(x["val"])):
                    if any(t[0] == "pending" for t in state):
                        bad.append((f, x))
            ins = flow.forward(cfg, frozenset(), transfer, join=lambda a, b: a | b, visit=visit)
            # a helper without a return statement: the state that reaches the function's end
            ex = ins.get(cfg.exit)
            if ex and any(t[0] == "pending" for t in ex) and not any(x.get("k") == "return" for x in walk(f.body)):
                bad.append((f, f.body))
            if creations:
                any_creation = True
        if not any_creation:
            continue
        n += 1
        chk.ob(rule, f0.name, "copied-nodes-back-linked", not bad, loc=bad[0][0].loc(bad[0][1]) if bad else f0.loc(f0.body),
               detail="%s returns a copy in which a node it created through a next link never had its prev link stored (the last node of "
                      "the chain, typically): walking the copy backwards from its tail stops there" % (bad[0][0].name if bad else f0.name),
               proof="every node created through X->next has a store to its prev before the return")
    return n


def check_bisection(chk, prog, fns, noreturn, rule="Q1"):
    """Bisection loops: every way out of the loop other than a match is the loop condition itself - an extra `break` must be
    redundant with it (lo > hi at that point), otherwise candidates between lo and hi are abandoned unexamined and an element
    that is stored is reported missing.  Decided by CAP at each break of a loop that halves an interval."""
    from .cap import Cap
    from .capcheck import run_cap

    INV = {"<=": ">", "<": ">=", ">=": "<", ">": "<="}

    def loop_cond(lp):
        """(op, a, b) of the loop condition with a leading negation folded in, or None"""
        c = X.strip(lp["cond"])
        neg = False
        while c is not None and c.get("k") == "un" and c.get("op") == "!":
            neg = not neg
            c = X.strip(c["ch"][0])
        if c is None or c.get("k") != "bin" or c.get("op") not in INV:
            return None
        return (INV[c["op"]] if neg else c["op"]), c["ch"][0], c["ch"][1]

    def interval_vars(lp):
        vs = {y["d"] for y in walk(lp["cond"]) if y.get("k") == "ref" and y.get("rk") in ("local", "param")}
        for y in walk(lp["body"]):
            # the probe: assigned from the halving expression
            if y.get("k") == "assign" and X.strip(y["ch"][0]).get("k") == "ref" and \
                    any(z.get("k") == "bin" and z.get("op") in ("/", ">>") and X.const_val(z["ch"][1]) in (1, 2) for z in walk(y["ch"][1])):
                vs.add(X.strip(y["ch"][0])["d"])
            if y.get("k") == "decl":
                for dcl in y.get("decls", ()):
                    if dcl.get("init") is not None and any(z.get("k") == "bin" and z.get("op") in ("/", ">>") and X.const_val(z["ch"][1]) in (1, 2) for z in walk(dcl["init"])):
                        vs.add(dcl["d"])
        return vs

    def bisection_loops(f):
        out = []
        for lp in walk(f.body):
            if lp.get("k") in ("for", "while") and lp.get("cond") is not None and lp.get("body") is not None:
                if loop_cond(lp) is not None and \
                        any(y.get("k") == "bin" and y.get("op") in ("/", ">>") and X.const_val(y["ch"][1]) in (1, 2) for y in walk(lp["body"])):
                    out.append(lp)
        return out

    class BisectCap(Cap):
        def on_break(self, n, st):
            if not self.loop_stack or not self.record:
                return
            if n.get("k") == "return":
                # a return leaves every enclosing construct: the innermost enclosing bisection loop of the function being run
                lps = [x for x in self.loop_stack if any(x is b for b in self.bisect)]
                if not lps:
                    return
                lp = lps[-1]
            else:
                lp = self.loop_stack[-1]
            if not any(lp is b for b in self.bisect):
                return
            # only an exit decided by the interval itself (`if (hi == -1) break;`, `if (probe == 0) ..`) is examined; leaving
            # on the comparison result (the match) is the other legitimate way out
            iv = interval_vars(lp)
            ctl = None
            fn_ = self.cur_fn
            cur = n
            while cur is not None and cur is not lp:
                par = fn_.parent.get(cur["i"])
                if par is not None and par.get("k") == "if" and par.get("cond") is not None:
                    ctl = par
                    break
                cur = par
            if ctl is None or not any(y.get("k") == "ref" and y.get("d") in iv for y in walk(ctl["cond"])):
                return
            op_, ca, cb = loop_cond(lp)
            s0 = st.copy()
            rs = self.record
            self.record = False
            try:
                # `if (probe == 0) return NOT_FOUND;  hi = probe - 1;` tests before it narrows: the interval that matters is the
                # one the narrowing statements that follow the guard in the same block would have left
                anchor_ = ctl
                blk_ = fn_.parent.get(ctl["i"])
                while blk_ is not None and blk_.get("k") in ("case", "default", "label"):
                    anchor_ = blk_            # `default: if (..) ..;` - the statements that follow are siblings of the label
                    blk_ = fn_.parent.get(blk_["i"])
                if blk_ is not None and blk_.get("k") == "block":
                    sib = blk_.get("ch", [])
                    k_ = [i_ for i_, x_ in enumerate(sib) if x_ is anchor_]
                    for x_ in (sib[k_[0] + 1:] if k_ else []):
                        if x_.get("k") == "assign" and X.strip(x_["ch"][0]).get("k") == "ref" and X.strip(x_["ch"][0]).get("d") in iv:
                            r_ = self.ev(x_, s0)
                            if len(r_) != 1:
                                return
                            s0 = r_[0][0]
                        else:
                            break
                la = self.ev(ca, s0)
                lb = self.ev(cb, la[0][0]) if len(la) == 1 else []
            finally:
                self.record = rs
            if len(la) != 1 or len(lb) != 1 or la[0][1][0] != "i" or lb[0][1][0] != "i":
                return
            a, b = la[0][1][1], lb[0][1][1]
            goal = {"<=": a - b - 1, "<": a - b, ">=": b - a - 1, ">": b - a}[op_]
            self.oblige(s0, "exit", n, goal, "the loop is left while `%s` still holds: the candidates in between are never examined" % X.render(lp["cond"])[:40])
    # the search may sit in a unit-local helper of the slot function
    seen_, allf = set(), []
    for f in fns:
        for g_ in unit_closure(f):
            if g_.name not in seen_:
                seen_.add(g_.name)
                allf.append(g_)
    bis_fns = [f for f in allf if f.cfg is not None and bisection_loops(f)]
    if not bis_fns:
        return 0, 0

    def bfactory(p):
        cp = BisectCap(p, noreturn=noreturn)
        cp.bisect = [lp for f in bis_fns for lp in bisection_loops(f)]
        return cp
    chk.rule(rule, "a bisection loop is left only through its condition or a match (an extra break is redundant with the condition)")
    nq, nundq, _sq = run_cap(chk, prog, bis_fns, rule=rule, noreturn=noreturn, cap_factory=bfactory, kinds={"exit"})
    return len(bis_fns), nundq


# --------------------------------------------------------------------------- A1 assertions are observers
def _stores_anything(g, prog, depth=0, seen=None):
    """does g (a function of the library) store to memory, a global or through a parameter - itself or through what it calls?"""
    from .models import PURE_LIBC, MESSAGE_FUNCS
    seen = seen if seen is not None else set()
    if g is None or g.body is None or g.name in seen or depth > 3:
        return g is None or g.body is None
    seen.add(g.name)
    for x in walk(g.body):
        if x.get("k") == "assign" or (x.get("k") == "un" and x.get("op") in ("++", "--")):
            t = X.strip(x["ch"][0])
            if t is not None and not (t.get("k") == "ref" and t.get("rk") == "local"):
                if not any(m_.startswith("b:D_") or m_.startswith("b:DPRINTF") for m_ in x.get("m", [])):
                    return True
        if x.get("k") == "call":
            cn = X.callee_name(x)
            if cn is None:
                if X.dispatch_slot(x) not in ("comp", "type", "show", None):
                    return True
                continue
            if cn in PURE_LIBC or cn in MESSAGE_FUNCS:
                continue
            h = prog.fn(cn)
            if h is None:
                return True
            if _stores_anything(h, prog, depth + 1, seen):
                return True
    return False


def check_assert_purity(chk, prog, units, rule="A1"):
    """The argument of an ASSERT / REQUIRE is only ever *observed*: with debugging compiled out (DEBUG=0) the macro expands to
    nothing, so an assignment, an increment or a call that stores something inside the argument silently disappears from that
    build - a node whose element is never set, a result that is never fetched."""
    n = 0
    for uname in units:
        u = prog.units.get(uname)
        if u is None:
            continue
        for f in u.functions.values():
            if f.body is None:
                continue
            for x in walk(f.body):
                ms = x.get("m") or []
                if not any(re.match(r"a:(ASSERT|REQUIRE)", m_) for m_ in ms):
                    continue
                bad = None
                if x.get("k") == "assign" or (x.get("k") == "un" and x.get("op") in ("++", "--")):
                    bad = "stores %s" % X.render(x)[:40]
                elif x.get("k") == "call":
                    cn = X.callee_name(x)
                    g = prog.fn(cn) if cn else None
                    if cn is not None and g is not None and _stores_anything(g, prog):
                        bad = "calls %s(), which stores" % cn
                if x.get("k") in ("assign", "call") or (x.get("k") == "un" and x.get("op") in ("++", "--")):
                    n += 1
                    chk.ob(rule, f.name, "assert-argument-observes:" + canon(f, x)[:36], bad is None, loc=f.loc(x),
                           detail="%s: the argument of an assertion %s: with debugging compiled out (DEBUG=0) the assertion expands to "
                                  "nothing and the effect is gone from the function" % (f.name, bad),
                           proof="no store in the assertion's argument")
    return n
