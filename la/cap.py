"""CAP: relational bounds / representation-invariant checker.

A path-sensitive abstract interpreter (trace partitioning, loops summarised by inferred invariants) over the structured statement tree.  Integers are linear expressions over
symbols, pointers are (region, byte offset) pairs, regions carry a symbolic capacity (and, for C strings, a
symbolic length).  Path conditions are conjunctions of linear inequalities decided by Fourier-Motzkin
elimination (la/lin.py).  Loops are summarised by havoc + candidate invariants kept only when inductive
(Houdini).  No concrete input is ever produced; a discharged obligation holds for all inputs of the explored
entry states, a violated one comes with the path condition and a witness valuation.
"""
import re

from . import expr as X
from .facts import walk
from .lin import Lin, feasible, entails, model

import os
import time
DEBUG_LOOPS = bool(os.environ.get("LA_DEBUG_LOOPS"))
_ctr = [0]


def fresh(prefix):
    _ctr[0] += 1
    return "%s%d" % (prefix, _ctr[0])


# libast functions that read at most `len` bytes (and stop at a terminator) from a pointer: (pointer arg, length arg)
COUNTED_READERS = {"spif_str_new_from_buff": (0, 1), "spif_str_init_from_buff": (1, 2), "spif_ustr_new_from_buff": (0, 1),
                   "spif_ustr_init_from_buff": (1, 2)}
NULLV = ("n",)
UNK = ("u",)


def I(l):
    return ("i", l if isinstance(l, Lin) else Lin.const(l))


def P(rid, off):
    return ("p", rid, off if isinstance(off, Lin) else Lin.const(off))


class Region(object):
    __slots__ = ("rid", "kind", "cap", "slen", "freed", "name", "nul", "site", "wver")

    def __init__(self, rid, kind, cap=None, slen=None, name="", site=None):
        self.rid = rid
        self.kind = kind      # heap | local | cstr | external | literal
        self.cap = cap        # Lin bytes or None (unknown)
        self.slen = slen      # Lin: strlen of the string starting at offset 0, or None
        self.freed = False
        self.name = name
        self.nul = None       # Lin offset known to hold a 0 byte
        self.site = site
        self.wver = 0         # bumped on every write (loop summarisation needs to know which buffers a loop writes)

    def clone(self):
        r = Region(self.rid, self.kind, self.cap, self.slen, self.name, self.site)
        r.freed = self.freed
        r.nul = self.nul
        r.wver = self.wver
        return r


class State(object):
    def __init__(self):
        self.env = {}
        self.heap = {}
        self.cons = []
        self.regions = {}
        self.imprecise = set()
        self.objs = {}
        self.path = []
        self.ret = None
        self.written_self = False

    def copy(self):
        s = State()
        s.env = dict(self.env)
        s.heap = dict(self.heap)
        s.cons = list(self.cons)
        s.regions = {k: v.clone() for k, v in self.regions.items()}
        s.imprecise = set(self.imprecise)
        s.objs = dict(self.objs)
        s.path = list(self.path)
        s.ret = self.ret
        s.written_self = self.written_self
        return s

    def add(self, e):
        if e.is_const():
            return e.c >= 0
        self.cons.append(e)
        return True

    def new_region(self, kind, cap=None, slen=None, name="", site=None):
        rid = fresh("R")
        self.regions[rid] = Region(rid, kind, cap, slen, name, site)
        return rid


class Obligation(object):
    __slots__ = ("kind", "node", "fn", "ok", "detail", "undecided", "witness")

    def __init__(self, kind, node, fn, ok, detail="", undecided=False, witness=None):
        self.kind = kind
        self.node = node
        self.fn = fn
        self.ok = ok
        self.detail = detail
        self.undecided = undecided
        self.witness = witness


class TooManyStates(Exception):
    pass


PTR_SIZES = {"unsigned char": 1, "char": 1, "signed char": 1, "unsigned short": 2, "short": 2, "unsigned int": 4,
             "int": 4, "unsigned long": 8, "long": 8, "void": 1, "float": 4, "double": 8, "long long": 8,
             "unsigned long long": 8}


def type_str(n):
    return re.sub(r"\*\s*(const|volatile|restrict)\b\s*", "*", (n.get("tc") or n.get("t") or "").replace("const ", "").replace("register ", "").replace("volatile ", "")).strip()


def pointee_size(n, records=None):
    t = type_str(n)
    m = re.match(r"^(.*?)\s*\*$", t)
    if not m:
        m2 = re.match(r"^(.*?)\s*\[\d*\]$", t)
        if not m2:
            return 1
        base = m2.group(1).strip()
    else:
        base = m.group(1).strip()
    if base.endswith("*"):
        return 8
    if base in PTR_SIZES:
        return PTR_SIZES[base]
    mm = re.match(r"struct (\w+)", base)
    if mm and records and mm.group(1) in records:
        return records[mm.group(1)]["size"]
    return 1


class Cap(object):
    MAX_STATES = 400
    time_budget = None      # seconds per analysed function (all entry states together); None = unbounded
    MAX_INLINE = 2
    skip_debug_arms = True
    check_progress = False

    def __init__(self, prog, invariants=None, noreturn=("libast_fatal_error",), inline=True):
        self.prog = prog
        self.inv = invariants or {}
        self.noreturn = set(noreturn)
        self.obls = []
        self.record = True
        self.inline = inline
        self.depth = 0
        self.cur_fn = None
        self.nstates = 0
        self.notes = []
        self.seen_obl = {}
        self.peeling = False
        self.loop_stack = []
        self.pending_gotos = []      # (label name, state, function name): forward jumps waiting for their label
        self.deadline = None          # absolute time after which run_function() abandons the current entry state

    # ------------------------------------------------------------------ obligations
    def oblige(self, st, kind, node, goal, detail, fn=None):
        """goal: Lin that must be >= 0."""
        if not self.record:
            return
        fn = fn or self.cur_fn
        key = (fn.name, kind, node["i"])
        if entails(st.cons, goal):
            if key not in self.seen_obl:
                self.seen_obl[key] = Obligation(kind, node, fn, True, detail)
                self.obls.append(self.seen_obl[key])
            return
        bad = st.cons + [(-goal) - 1]
        und = any(s in st.imprecise for s in goal.syms())
        if not und and st.imprecise:
            # the quantities the goal speaks about are tied, through the path's constraints, to a value nothing is known about (a
            # loop-summary symbol without a surviving invariant, unmodelled memory): whether this state exists is not established
            comp = set(goal.syms())
            grew = True
            cons_syms = [set(c_.syms()) for c_ in st.cons]
            while grew:
                grew = False
                for cs_ in cons_syms:
                    if cs_ & comp and not cs_ <= comp:
                        comp |= cs_
                        grew = True
            und = any(s_ in st.imprecise for s_ in comp)
        if DEBUG_LOOPS and node.get("l") == int(os.environ.get("LA_DEBUG_LINE", "0")):
            print("   OBL %s goal %r und=%s cons=%r path=%s" % (kind, goal, und, st.cons, st.path[-8:]))
        wit = None if und else model(bad)
        o = Obligation(kind, node, fn, False, detail, undecided=und, witness=wit)
        prev = self.seen_obl.get(key)
        if prev is None:
            self.seen_obl[key] = o
            self.obls.append(o)
        elif prev.ok or (prev.undecided and not und):
            prev.ok, prev.detail, prev.undecided, prev.witness = False, detail, und, wit

    def fail(self, st, kind, node, detail, undecided=False):
        if not self.record:
            return
        key = (self.cur_fn.name, kind, node["i"])
        if not undecided and st.imprecise and any(s_ in st.imprecise for c_ in st.cons for s_ in c_.syms()):
            # the path that leads here was chosen by a value nothing is known about (unknown memory, an unmodelled result, a loop
            # summary): whether this state exists at all is not established, so the finding is not definite
            undecided = True
        if DEBUG_LOOPS and node.get("l") == int(os.environ.get("LA_DEBUG_LINE", "0")):
            print("   FAIL %s %s und=%s cons=%r path=%s" % (kind, detail[:60], undecided, st.cons[-12:], st.path[-8:]))
        o = Obligation(kind, node, self.cur_fn, False, detail, undecided=undecided, witness=None if undecided else model(st.cons))
        prev = self.seen_obl.get(key)
        if prev is None:
            self.seen_obl[key] = o
            self.obls.append(o)
        elif prev.ok or (prev.undecided and not undecided):
            prev.ok, prev.detail, prev.undecided, prev.witness = False, detail, undecided, o.witness

    def access(self, st, node, val, nbytes, write, what):
        """Check an access of nbytes (Lin) at pointer value val."""
        if val[0] == "u" or val[0] == "o":
            return
        pos = nbytes - 1  # nbytes >= 1 ?
        maybe_zero = feasible(st.cons + [-nbytes])   # nbytes <= 0 possible
        if val[0] == "n":
            if not maybe_zero or not entails(st.cons, -nbytes):
                # some path accesses >= 1 byte through NULL
                if feasible(st.cons + [pos]):
                    self.fail(st, "null", node, "%s through a NULL pointer (%s)" % ("write" if write else "read", what))
            return
        if val[0] != "p":
            return
        r = st.regions.get(val[1])
        if r is None:
            return
        if write:
            r.wver += 1
        if r.freed:
            self.fail(st, "freed", node, "%s of memory that was already released (%s)" % ("write" if write else "read", what))
            return
        off = val[2]
        # only meaningful when at least one byte is accessed
        cons_save = st.cons
        if maybe_zero:
            st = st.copy()
            st.cons = st.cons + [pos]
            if not feasible(st.cons):
                return
        self.oblige(st, "lower", node, off, "%s starts before the beginning of %s (%s)" % ("write" if write else "read", r.name or r.kind, what))
        if r.kind == "external" or r.cap is None:
            return
        self.oblige(st, "upper", node, r.cap - off - nbytes,
                    "%s of %s byte(s) at offset %s runs past the end of %s of capacity %s (%s)" % (
                        "write" if write else "read", nbytes, off, r.name or r.kind, r.cap, what))

    # ------------------------------------------------------------------ values
    def truthy(self, st, v):
        """-> (can_be_true, can_be_false, true_constraints, false_constraints) for integer/pointer values"""
        if v[0] == "n":
            return False, True, [], []
        if v[0] in ("p", "o"):
            return True, False, [], []
        if v[0] == "i":
            l = v[1]
            if l.is_const():
                return (l.c != 0), (l.c == 0), [], []
            return True, True, None, [l, -l]      # true side: l != 0 is a disjunction (handled by caller)
        return True, True, [], []

    def field_key(self, objv, name):
        return (objv[1], name)

    def default_field(self, st, node, key):
        """lazily create the value of an unconstrained field"""
        if node.get("tp"):
            v = UNK
        elif node.get("tw"):
            v = self.fresh_for(st, node, "f_%s_" % key[1])
        else:
            v = UNK
        st.heap[key] = v
        return v

    # ------------------------------------------------------------------ lvalues
    def lval(self, n, st):
        """-> [(st, loc)] ; loc = ('var', declid) | ('heap', key) | ('mem', ptrval, size) | None"""
        n0 = X.strip(n)
        k = n0.get("k")
        if k == "ref":
            return [(st, ("var", n0["d"], n0))]
        if k == "member":
            res = []
            if n0.get("arrow"):
                for s, bv in self.ev(n0["ch"][0], st):
                    if bv[0] == "o":
                        res.append((s, ("heap", (bv[1], n0["n"]), n0)))
                    elif bv[0] == "p" and bv[2].is_const() and bv[2].c == 0 and ("addrof", bv[1]) in s.heap:
                        # a pointer to a struct local (a helper handed &run): the field is that local's own field
                        res.append((s, ("heap", (("dot", s.heap[("addrof", bv[1])]), n0["n"]), n0)))
                    elif bv[0] == "p" and bv[2].is_const() and bv[2].c == 0 and s.regions.get(bv[1]) is not None:
                        rg = s.regions[bv[1]]
                        if rg.freed:
                            self.fail(s, "freed", n0, "field %s of a released object accessed" % n0["n"])
                        res.append((s, ("heap", (bv[1], n0["n"]), n0)))
                    elif bv[0] == "n":
                        self.fail(s, "null", n0, "field %s accessed through a NULL object pointer" % n0["n"])
                    else:
                        res.append((s, None))
                return res
            for s, loc in self.lval(n0["ch"][0], st):
                if loc and loc[0] in ("var", "heap"):
                    base = loc[1]
                    res.append((s, ("heap", (("dot", base), n0["n"]), n0)))
                else:
                    res.append((s, None))
            return res
        if k == "index":
            res = []
            for s, bv in self.ev(n0["ch"][0], st):
                for s2, iv in self.ev(n0["ch"][1], s):
                    es = (n0.get("tw") or 64) // 8 if not n0.get("tp") else 8
                    if n0.get("tw") is None and not n0.get("tp"):
                        es = pointee_size(n0["ch"][0], self.prog.records)
                    pv = self.ptr_add(s2, bv, iv, es)
                    res.append((s2, ("mem", pv, es, n0)))
            return res
        if k == "un" and n0.get("op") == "*":
            res = []
            for s, pv in self.ev(n0["ch"][0], st):
                es = (n0.get("tw") or 64) // 8 if not n0.get("tp") else 8
                res.append((s, ("mem", pv, es, n0)))
            return res
        return [(st, None)]

    def ptr_add(self, st, pv, iv, es):
        if pv[0] == "p" and iv[0] == "i":
            return P(pv[1], pv[2] + iv[1].scale(es))
        if pv[0] == "n" and iv[0] == "i":
            if iv[1].is_const() and iv[1].c == 0:
                return NULLV
            return NULLV
        return UNK

    def load(self, st, loc):
        if loc is None:
            return UNK
        if loc[0] == "var":
            rid_ = st.heap.get(("addrof_of", loc[1]))
            if rid_ is not None and ("lval", rid_) in st.heap:
                return st.heap[("lval", rid_)]          # the variable's address was taken: a store through it is its value
            v = st.env.get(loc[1])
            if v is not None and v[0] == "uninit" and any(isinstance(kx, tuple) and len(kx) == 2 and kx[0] == ("dot", loc[1]) for kx in st.heap):
                # a struct local filled field by field and then used as a whole (entry.f = ..; table[i] = entry;)
                st.env[loc[1]] = UNK
                return UNK
            if v is not None and v[0] == "uninit":
                self.fail(st, "uninit", loc[2], "local `%s` is read on a path on which it was never assigned" % v[1])
                v = self.fresh_for(st, loc[2], "u_%s_" % v[1])
                st.env[loc[1]] = v
                return v
            if v is None:
                n = loc[2]
                if n.get("rk") == "global":
                    return self.global_value(st, n)
                v = self.fresh_for(st, n, "u_%s_" % n.get("n", "v"))
                st.env[loc[1]] = v
            return v
        if loc[0] == "heap":
            v = st.heap.get(loc[1])
            if v is None:
                v = self.default_field(st, loc[2], loc[1])
            return v
        if loc[0] == "mem":
            pv, es, n = loc[1], loc[2], loc[3]
            self.access(st, n, pv, Lin.const(es), False, X.render(n)[:40])
            return self.mem_read(st, pv, es, n)
        return UNK

    def mem_read(self, st, pv, es, n):
        if pv[0] == "p" and ("addrof", pv[1]) in st.heap and pv[2].is_const() and pv[2].c == 0 and ("lval", pv[1]) in st.heap:
            return st.heap[("lval", pv[1])]
        if pv[0] == "p":
            r = st.regions.get(pv[1])
            if r is not None and es == 1:
                # byte of a C string: zero exactly at its length (when known); the same cell read twice without an
                # intervening write yields the same value
                ck = ("cell", pv[1], pv[2])
                if ck in st.heap:
                    return st.heap[ck]
                s = fresh("b")
                v = I(Lin.sym(s))
                # remember which string byte this is for terminator reasoning
                st.heap[("byte", s)] = (pv[1], pv[2])
                st.heap[ck] = v
                return v
        if n.get("tp"):
            return UNK
        m_ = fresh("m")
        st.imprecise.add(m_)          # contents of memory nothing is known about: a finding that hinges on it is not definite
        return I(Lin.sym(m_))

    def fresh_for(self, st, n, prefix):
        if n.get("tp"):
            return UNK
        x = fresh(prefix)
        if n.get("ts") == 0:
            st.cons.append(Lin.sym(x))
            if n.get("tw") and n["tw"] <= 16:
                st.cons.append(Lin.const((1 << n["tw"]) - 1) - Lin.sym(x))
        return I(Lin.sym(x))

    def global_value(self, st, n):
        key = ("global", n.get("n"))
        if key in st.heap:
            return st.heap[key]
        g = None
        for u in self.prog.units.values():
            for x in u.all_globals:
                if x["n"] == n.get("n") and x.get("init") is not None and "const" in (x.get("t") or ""):
                    g = x
        if g is not None:
            cv = X.const_val(g["init"])
            if cv is not None:
                return I(cv)
        v = self.fresh_for(st, n, "g_%s_" % n.get("n", ""))
        st.heap[key] = v
        return v

    def store(self, st, loc, val, node):
        if loc is None:
            return
        if loc[0] == "var":
            st.env[loc[1]] = val
            rid_ = st.heap.get(("addrof_of", loc[1]))
            if rid_ is not None:
                st.heap[("lval", rid_)] = val
        elif loc[0] == "heap":
            st.heap[loc[1]] = val
        elif loc[0] == "mem":
            pv, es = loc[1], loc[2]
            if pv[0] == "p" and ("addrof", pv[1]) in st.heap and pv[2].is_const() and pv[2].c == 0:
                st.heap[("lval", pv[1])] = val            # *p = v where p is the address of a scalar local
            self.access(st, loc[3], pv, Lin.const(es), True, X.render(loc[3])[:40])
            if pv[0] == "p":
                self.forget_cells(st, pv[1])
                if es == 1 and val[0] == "i":
                    st.heap[("cell", pv[1], pv[2])] = val
                    if len(val[1].t) == 1 and val[1].c == 0 and ("byte", val[1].t[0][0]) not in st.heap:
                        pass
            if pv[0] == "p":
                r = st.regions.get(pv[1])
                if r is not None:
                    iszero = val[0] == "i" and val[1].is_const() and val[1].c == 0
                    if iszero and es == 1:
                        r.nul = pv[2]
                        if r.slen is None and pv[2].is_const() and pv[2].c == 0:
                            r.slen = Lin.const(0)      # a zero at the very start: the empty string
                    elif r.nul is not None and not entails(st.cons, r.nul - pv[2] - es) and not entails(st.cons, pv[2] - r.nul - 1):
                        r.nul = None
                    if r.slen is not None and not iszero:
                        # writing a non-zero byte inside the string keeps its length unless at the terminator
                        if not entails(st.cons, r.slen - pv[2] - 1):
                            r.slen = None
                    elif r.slen is not None and iszero:
                        # a zero written at or before the terminator shortens the string
                        if entails(st.cons, pv[2]) and entails(st.cons, r.slen - pv[2]):
                            r.slen = pv[2]     # no zero byte before the old terminator: the string now ends here
                        elif entails(st.cons, pv[2] - r.slen - 1):
                            pass               # a zero behind the terminator: the string still ends where it did
                        else:
                            r.slen = None

    # ------------------------------------------------------------------ expressions
    def ev(self, n, st):
        """-> [(state, value)]"""
        k = n.get("k")
        if k in ("paren",):
            return self.ev(n["ch"][0], st)
        if k in ("icast", "cast"):
            ck = n.get("ck")
            res = []
            for s, v in self.ev(n["ch"][0], st):
                if ck == "ArrayToPointerDecay":
                    res.append((s, v))
                elif ck in ("IntegralCast",) and v[0] == "i":
                    res.append((s, self.int_cast(s, v, n, n["ch"][0])))
                elif ck == "PointerToIntegral" and v[0] == "n":
                    res.append((s, I(0)))
                elif ck == "PointerToIntegral":
                    res.append((s, I(Lin.sym(fresh("addr")))) if v[0] != "i" else (s, v))
                elif ck == "IntegralToPointer" and v[0] == "i" and v[1].is_const() and v[1].c == 0:
                    res.append((s, NULLV))
                elif ck == "NullToPointer":
                    res.append((s, NULLV))
                elif ck in ("IntegralToBoolean", "PointerToBoolean"):
                    res.append((s, v))
                elif ck in ("FloatingToIntegral", "IntegralToFloating", "FloatingCast"):
                    res.append((s, I(Lin.sym(fresh("fl"))) if n.get("tw") else UNK))
                else:
                    res.append((s, v))
            return res
        if n.get("null") and n.get("tp"):
            return [(st, NULLV)]
        if "cv" in n and not n.get("tp") and k not in ("assign", "un", "call", "stmtexpr", "cond"):
            return [(st, I(n["cv"]))]
        if k in ("int", "char"):
            return [(st, I(n["cv"]))]
        if k == "float":
            return [(st, UNK)]
        if k == "str":
            ln = n.get("slen", 0)
            rid = st.new_region("literal", Lin.const(ln + 1), Lin.const(len((n.get("sv") or "").split("\0")[0])) if n.get("sv") is not None else None, "string literal")
            st.regions[rid].nul = Lin.const(ln)
            return [(st, P(rid, 0))]
        if k == "predef":
            rid = st.new_region("literal", None, None, "__func__")
            return [(st, P(rid, 0))]
        if k == "sizeof":
            return [(st, I(n.get("cv", 0)))]
        if k == "ref":
            rk = n.get("rk")
            if rk == "func":
                return [(st, ("f", n.get("n")))]
            if rk == "enum":
                return [(st, I(n.get("cv", 0)))]
            if n.get("alen") is not None or type_str(n).endswith("]"):
                # a local/global array: its region
                v = st.env.get(n["d"])
                if v is None:
                    m = re.search(r"\[(\d+)\]$", type_str(n))
                    es = pointee_size(n, self.prog.records)
                    cap = Lin.const(int(m.group(1)) * es) if m else None
                    kind = "local" if rk in ("local", "param") else "global"
                    rid = st.new_region(kind, cap, None, n.get("n", "array"))
                    v = P(rid, 0)
                    st.env[n["d"]] = v
                return [(st, v)]
            return [(st, self.load(st, ("var", n["d"], n)))]
        if k == "index":
            b0 = X.strip(n["ch"][0])
            if b0.get("k") == "un" and b0.get("op") == "*":
                c0 = X.strip(b0["ch"][0])
                if c0.get("k") == "call" and X.callee_name(c0) in ("__ctype_b_loc", "__ctype_tolower_loc", "__ctype_toupper_loc"):
                    res = []
                    for s, iv_ in self.ev(n["ch"][1], st):
                        mk = ("ctmemo", X.callee_name(c0), iv_[1]) if iv_[0] == "i" else None
                        if mk is not None and mk in s.heap:
                            res.append((s, s.heap[mk]))
                            continue
                        r = fresh("ct")
                        if mk is not None:
                            s.heap[mk] = I(Lin.sym(r))
                        if iv_[0] == "i":
                            b = self.byte_of(s, iv_[1])
                            if b is not None:
                                if X.callee_name(c0) == "__ctype_b_loc":
                                    s.heap[("ctype", r)] = b
                                else:
                                    s.heap[("byte", r)] = b
                        if X.callee_name(c0) == "__ctype_b_loc":
                            s.cons.append(Lin.sym(r))
                        res.append((s, I(Lin.sym(r))))
                    return res
        if k == "member" or k == "index" or (k == "un" and n.get("op") == "*"):
            res = []
            for s, loc in self.lval(n, st):
                if loc is not None and loc[0] == "heap" and type_str(n).endswith("]"):
                    # array field: region per (object, field)
                    v = s.heap.get(loc[1])
                    if v is None:
                        m = re.search(r"\[(\d+)\]$", type_str(n))
                        es = pointee_size(n, self.prog.records)
                        rid = s.new_region("field", Lin.const(int(m.group(1)) * es) if m else None, None, n.get("n", "field"))
                        v = P(rid, 0)
                        s.heap[loc[1]] = v
                    res.append((s, v))
                else:
                    res.append((s, self.load(s, loc)))
            return res
        if k == "un":
            return self.ev_unary(n, st)
        if k == "bin":
            return self.ev_binary(n, st)
        if k == "assign":
            return self.ev_assign(n, st)
        if k == "cond":
            res = []
            ts, fs = self.branch(n["ch"][0], st)
            for s in ts:
                res.extend(self.ev(n["ch"][1], s))
            for s in fs:
                res.extend(self.ev(n["ch"][2], s))
            return res
        if k == "call":
            return self.ev_call(n, st)
        if k == "stmtexpr":
            return self.ev_stmtexpr(n, st)
        if k == "initlist" or k == "zeroinit":
            return [(st, UNK)]
        if k == "vaarg":
            return [(st, UNK if n.get("tp") else I(Lin.sym(fresh("va"))))]
        return [(st, UNK if (n.get("tp") or not n.get("tw")) else I(Lin.sym(fresh("x"))))]

    def int_cast(self, st, v, n, src):
        """integral conversion: model truncation/sign change only where it can matter"""
        w, s = n.get("tw"), n.get("ts")
        ss = X.strip(src)
        sw, ssg = src.get("tw") or ss.get("tw"), src.get("ts") if src.get("tw") else ss.get("ts")
        l = v[1]
        if l.is_const():
            c = l.c
            if w:
                c &= (1 << w) - 1
                if s and c >= (1 << (w - 1)):
                    c -= (1 << w)
            return I(c)
        if w and sw and (w > sw or (w == sw and s == ssg)):
            if ssg and not s:
                # signed -> wider/equal unsigned: negative values wrap to huge ones
                if entails(st.cons, l):
                    return v
                r = fresh("wrap")
                st.cons.append(Lin.sym(r))
                # r == l when l >= 0 (not expressible): treat as imprecise unless non-negative
                st.imprecise.add(r)
                return I(Lin.sym(r))
            return v
        if w and sw and w == sw and s != ssg:
            if entails(st.cons, l):
                return v
            r = fresh("cvt")
            if not s:
                st.cons.append(Lin.sym(r))
            st.imprecise.add(r)
            return I(Lin.sym(r))
        if w and sw and w < sw:
            # narrowing: lengths and indices are assumed to fit the types they are stored in (stated assumption);
            # what is modelled is the sign change: a possibly negative value converted to an unsigned type wraps
            if (not s) and not entails(st.cons, l):
                r = fresh("cvt")
                st.cons.append(Lin.sym(r))
                st.imprecise.add(r)
                return I(Lin.sym(r))
            return v
        return v

    def ev_unary(self, n, st):
        op = n["op"]
        if op in ("++", "--"):
            res = []
            for s, loc in self.lval(n["ch"][0], st):
                cur = self.load(s, loc)
                d = 1 if op == "++" else -1
                if cur[0] == "i" and d == -1 and not n["ch"][0].get("ts") and not n["ch"][0].get("tp") and (n["ch"][0].get("tw") or 0) >= 32 and \
                        feasible(s.cons + [-cur[1]]) and not entails(s.cons, cur[1] - 1):
                    # decrement of an unsigned quantity that may be 0: the zero case wraps to the type's maximum
                    s_wrap = s.copy()
                    s_wrap.cons += [-cur[1]]
                    s_wrap.path.append("%s wraps below 0" % X.render(n["ch"][0])[:20])
                    # modular arithmetic at the width of the type: 0 - 1 == 2^w - 1 (exact, so an index built from it is a
                    # definite finding, not an undecided one)
                    wv = I(cur[1] - 1 + (1 << (n["ch"][0].get("tw") or 32)))
                    self.store(s_wrap, loc, wv, n)
                    res.append((s_wrap, cur if n.get("post") else wv))
                    s.cons.append(cur[1] - 1)
                if cur[0] == "i":
                    new = I(cur[1] + d)
                elif cur[0] == "p":
                    new = P(cur[1], cur[2] + d * pointee_size(n["ch"][0], self.prog.records))
                else:
                    new = cur
                self.store(s, loc, new, n)
                res.append((s, cur if n.get("post") else new))
            return res
        if op == "__extension__":
            return self.ev(n["ch"][0], st)          # GNU marker in front of a statement expression (MIN / MAX)
        if op == "&":
            inner = X.strip(n["ch"][0])
            if inner.get("k") == "un" and inner.get("op") == "*":
                return self.ev(inner["ch"][0], st)
            if inner.get("k") == "index":
                res = []
                for s, bv in self.ev(inner["ch"][0], st):
                    for s2, iv in self.ev(inner["ch"][1], s):
                        es = (inner.get("tw") or 64) // 8 if not inner.get("tp") else 8
                        res.append((s2, self.ptr_add(s2, bv, iv, es)))
                return res
            if inner.get("k") == "ref":
                # address of a scalar local: a one-object region; the variable's value becomes unknown to us
                t = type_str(inner)
                if t.endswith("]"):
                    return self.ev(inner, st)
                rid = st.heap.get(("addrof_of", inner["d"]))
                if rid is None or st.regions.get(rid) is None:
                    rid = st.new_region("local", Lin.const(max((inner.get("tw") or 64) // 8, 1)), None, "&" + inner.get("n", "var"))
                    st.heap[("addrof", rid)] = inner["d"]
                    st.heap[("addrof_of", inner["d"])] = rid
                    cur_ = st.env.get(inner["d"])
                    if cur_ is not None and cur_[0] != "uninit":
                        st.heap[("lval", rid)] = cur_          # what the variable holds is what the cell holds
                return [(st, P(rid, 0))]
            return [(st, UNK)]
        res = []
        for s, v in self.ev(n["ch"][0], st):
            if op == "!":
                t, f, _, _ = self.truthy(s, v)
                if t and not f:
                    res.append((s, I(0)))
                elif f and not t:
                    res.append((s, I(1)))
                else:
                    ts, fs = self.branch(n["ch"][0], s, pre=v)
                    for a in ts:
                        res.append((a, I(0)))
                    for a in fs:
                        res.append((a, I(1)))
            elif op == "-":
                res.append((s, I(-v[1]) if v[0] == "i" else UNK))
            elif op == "+":
                res.append((s, v))
            elif op == "~":
                res.append((s, I(-v[1] - 1) if v[0] == "i" else UNK))
            else:
                res.append((s, UNK))
        return res

    def ev_binary(self, n, st):
        op = n["op"]
        if op in ("&&", "||", "<", ">", "<=", ">=", "==", "!="):
            ts, fs = self.branch(n, st)
            return [(s, I(1)) for s in ts] + [(s, I(0)) for s in fs]
        if op == ",":
            res = []
            for s, _ in self.ev(n["ch"][0], st):
                res.extend(self.ev(n["ch"][1], s))
            return res
        res = []
        for s, a in self.ev(n["ch"][0], st):
            for s2, b in self.ev(n["ch"][1], s):
                res.append((s2, self.arith(s2, op, a, b, n)))
        return res

    def arith(self, st, op, a, b, n):
        if op == "+":
            if a[0] == "i" and b[0] == "i":
                return I(a[1] + b[1])
            if a[0] in ("p", "n") and b[0] == "i":
                return self.ptr_add(st, a, b, pointee_size(n, self.prog.records))
            if b[0] in ("p", "n") and a[0] == "i":
                return self.ptr_add(st, b, a, pointee_size(n, self.prog.records))
            return UNK
        if op == "-":
            if a[0] == "i" and b[0] == "i":
                return I(a[1] - b[1])
            if a[0] == "p" and b[0] == "i":
                return self.ptr_add(st, a, I(-b[1]), pointee_size(n, self.prog.records))
            if a[0] == "p" and b[0] == "p":
                if a[1] == b[1]:
                    es = pointee_size(n["ch"][0], self.prog.records)
                    d = a[2] - b[2]
                    if es == 1:
                        return I(d)
                    if d.is_const() and d.c % es == 0:
                        return I(d.c // es)
                    q = fresh("pd")
                    st.imprecise.add(q)
                    return I(Lin.sym(q))
                q = fresh("pdx")
                st.imprecise.add(q)
                return I(Lin.sym(q))
            if n.get("tp"):
                return UNK
            q = fresh("d")
            st.imprecise.add(q)
            return I(Lin.sym(q))
        if a[0] == "i" and b[0] == "i":
            la, lb = a[1], b[1]
            if op == "*":
                if la.is_const():
                    return I(lb.scale(la.c))
                if lb.is_const():
                    return I(la.scale(lb.c))
            if la.is_const() and lb.is_const():
                x, y = la.c, lb.c
                try:
                    if op == "/" and y:
                        return I(int(x / y))
                    if op == "%" and y:
                        return I(x - int(x / y) * y)
                    if op == "<<":
                        return I(x << y)
                    if op == ">>":
                        return I(x >> y)
                    if op == "&":
                        return I(x & y)
                    if op == "|":
                        return I(x | y)
                    if op == "^":
                        return I(x ^ y)
                    if op == "*":
                        return I(x * y)
                except (ValueError, OverflowError):
                    pass
            r = fresh("t")
            res = Lin.sym(r)
            # a few useful facts about the result
            if op == "/" and lb.is_const() and lb.c > 0 and entails(st.cons, la):
                st.cons.append(res)
                st.cons.append(la - res.scale(lb.c))              # q*d <= a
                st.cons.append(res.scale(lb.c) + (lb.c - 1) - la)  # a <= q*d + d-1
                return I(res)
            if op == "%" and lb.is_const() and lb.c > 0 and entails(st.cons, la):
                st.cons.append(res)
                st.cons.append(Lin.const(lb.c - 1) - res)
                return I(res)
            if op == "&" and lb.is_const() and lb.c >= 0:
                mk = ("andmemo", la, lb.c)
                if mk in st.heap:
                    return st.heap[mk]
                st.heap[mk] = I(res)
                st.cons.append(res)
                st.cons.append(Lin.const(lb.c) - res)
                if len(la.t) == 1 and la.c == 0 and ("ctype", la.t[0][0]) in st.heap:
                    st.heap[("ctype", r)] = st.heap[("ctype", la.t[0][0])]
                return I(res)
            st.imprecise.add(r)
            return I(res)
        return UNK if n.get("tp") else I(Lin.sym(fresh("o")))

    def ev_assign(self, n, st):
        op = n["op"]
        res = []
        for s, rv in self.ev(n["ch"][1], st):
            for s2, loc in self.lval(n["ch"][0], s):
                if op != "=":
                    cur = self.load(s2, loc)
                    rv2 = self.arith(s2, op[:-1], cur, rv, n if not n.get("tp") else n["ch"][0])
                    if cur[0] == "p" and rv[0] == "i" and op in ("+=", "-="):
                        rv2 = self.ptr_add(s2, cur, rv if op == "+=" else I(-rv[1]), pointee_size(n["ch"][0], self.prog.records))
                else:
                    rv2 = rv
                    lt = X.strip(n["ch"][0])
                    if rv[0] == "i" and lt.get("tw"):
                        rsrc = n["ch"][1]
                        # implicit conversion already appears as an icast in the tree; nothing more to do
                self.store(s2, loc, rv2, n)
                if loc and loc[0] == "heap" and isinstance(loc[1][0], str) and loc[1][0] == self.self_obj:
                    s2.written_self = True
                res.append((s2, rv2))
        return res

    self_obj = None

    def ev_stmtexpr(self, n, st):
        blk = n["ch"][0]
        stmts = blk.get("ch", [])
        states = [st]
        for sx in stmts[:-1]:
            nxt = []
            for s in states:
                out = self.exec(sx, s)
                nxt.extend(out["norm"])
            states = nxt
        res = []
        last = stmts[-1] if stmts else None
        for s in states:
            if last is None or last.get("k") in ("decl", "if", "while", "for", "do", "switch", "return", "block", "null"):
                if last is not None:
                    for s2 in self.exec(last, s)["norm"]:
                        res.append((s2, UNK))
                else:
                    res.append((s, UNK))
            else:
                res.extend(self.ev(last, s))
        return res

    # ------------------------------------------------------------------ conditions
    def branch(self, cond, st, pre=None):
        """-> (true_states, false_states)"""
        n = X.strip(cond) if cond.get("k") in ("paren",) else cond
        while n.get("k") == "paren":
            n = n["ch"][0]
        k = n.get("k")
        if pre is None and k == "un" and n.get("op") == "!":
            t, f = self.branch(n["ch"][0], st)
            return f, t
        if pre is None and k == "bin" and n.get("op") == "&&":
            t1, f1 = self.branch(n["ch"][0], st)
            ts, fs = [], list(f1)
            for s in t1:
                t2, f2 = self.branch(n["ch"][1], s)
                ts.extend(t2)
                fs.extend(f2)
            return ts, fs
        if pre is None and k == "bin" and n.get("op") == "||":
            t1, f1 = self.branch(n["ch"][0], st)
            ts, fs = list(t1), []
            for s in f1:
                t2, f2 = self.branch(n["ch"][1], s)
                ts.extend(t2)
                fs.extend(f2)
            return ts, fs
        if pre is None and k == "bin" and n.get("op") in ("<", ">", "<=", ">=", "==", "!="):
            ts, fs = [], []
            for s, a in self.ev(n["ch"][0], st):
                for s2, b in self.ev(n["ch"][1], s):
                    t, f = self.compare(s2, n["op"], a, b, n)
                    ts.extend(t)
                    fs.extend(f)
            return ts, fs
        if pre is None and k in ("icast", "cast") and n.get("ck") in ("IntegralToBoolean", "PointerToBoolean", "LValueToRValue", "NoOp", "IntegralCast", "BitCast"):
            if n.get("ck") == "IntegralCast" and (n.get("tw") or 64) < 32:
                pass
            else:
                return self.branch(n["ch"][0], st)
        ts, fs = [], []
        vals = [(st, pre)] if pre is not None else self.ev(n, st)
        if pre is None and k == "ref" and n.get("flagdef") is not None:
            # a flag local that stands for a condition (facts.Function._find_flagdefs): where its value was blurred by a merge of
            # states, test the condition it stands for instead
            for s, v in vals:
                if v[0] == "i" and v[1].is_const():
                    (ts if v[1].c else fs).append(s)
                else:
                    t_, f_ = self.branch(n["flagdef"], s)
                    ts.extend(t_)
                    fs.extend(f_)
            return ts, fs
        for s, v in vals:
            if v[0] == "n":
                fs.append(s)
            elif v[0] in ("p", "o", "f"):
                ts.append(s)
            elif v[0] == "i":
                l = v[1]
                if l.is_const():
                    (ts if l.c else fs).append(s)
                    continue
                # false: l == 0
                sf = s.copy()
                sf.cons += [l, -l]
                sf.path.append("!(%s)" % X.render(n)[:40])
                if feasible(sf.cons):
                    self.note_byte_zero(sf, l)
                    fs.append(sf)
                # true: l >= 1 or l <= -1
                added = False
                for e, tag in ((l - 1, ">0"), (-l - 1, "<0")):
                    stt = s.copy()
                    stt.cons.append(e)
                    if feasible(stt.cons):
                        stt.path.append("(%s)%s" % (X.render(n)[:40], tag))
                        self.note_byte_nonzero(stt, l)
                        ts.append(stt)
            else:
                a, b = s, s.copy()
                a.path.append("(%s)?" % X.render(n)[:30])
                b.path.append("!(%s)?" % X.render(n)[:30])
                ts.append(a)
                fs.append(b)
        return ts, fs

    def byte_of(self, st, l):
        if len(l.t) == 1 and l.c == 0 and l.t[0][1] in (1, -1):
            return st.heap.get(("byte", l.t[0][0]))
        return None

    def note_byte_nonzero(self, st, l):
        """a byte read from a C string was non-zero: the cursor is strictly before the terminator"""
        b = self.byte_of(st, l)
        if b is None and len(l.t) == 1 and l.c == 0:
            b = st.heap.get(("ctype", l.t[0][0]))   # a ctype class test is false for NUL
        if b is None:
            return
        r = st.regions.get(b[0])
        if r is not None and r.slen is not None:
            # offset != slen ; with offset <= slen known this gives offset < slen
            if entails(st.cons, r.slen - b[1]):
                st.cons.append(r.slen - b[1] - 1)
        elif r is not None and r.nul is not None:
            # a known zero byte at `nul`: a non-zero byte at offset <= nul is strictly before it
            if entails(st.cons, r.nul - b[1]):
                st.cons.append(r.nul - b[1] - 1)

    def note_byte_zero(self, st, l):
        b = self.byte_of(st, l)
        if b is None:
            return
        r = st.regions.get(b[0])
        if r is not None and r.slen is not None:
            # a zero byte at offset o <= slen means o == slen (strlen is the first zero)
            if entails(st.cons, r.slen - b[1]) and entails(st.cons, b[1]):
                st.cons.append(b[1] - r.slen)

    def compare(self, st, op, a, b, n):
        ts, fs = [], []
        neg = {"<": ">=", ">": "<=", "<=": ">", ">=": "<", "==": "!=", "!=": "=="}

        def lin_cases(o, x, y):
            """list of constraint lists (disjuncts) for x o y"""
            if o == "<":
                return [[y - x - 1]]
            if o == "<=":
                return [[y - x]]
            if o == ">":
                return [[x - y - 1]]
            if o == ">=":
                return [[x - y]]
            if o == "==":
                return [[x - y, y - x]]
            return [[x - y - 1], [y - x - 1]]

        if a[0] == "p" and b[0] == "p" and a[1] == b[1]:
            a, b = I(a[2]), I(b[2])
        if a[0] == "i" and b[0] == "i":
            for o, out in ((op, ts), (neg[op], fs)):
                for cs in lin_cases(o, a[1], b[1]):
                    s = st.copy()
                    s.cons += cs
                    if feasible(s.cons):
                        s.path.append("%s %s %s" % (a[1], o, b[1]))
                        if o in ("!=",) and b[1].is_const() and b[1].c == 0:
                            self.note_byte_nonzero(s, a[1])
                        if o in ("==",) and b[1].is_const() and b[1].c == 0:
                            self.note_byte_zero(s, a[1])
                        if o in ("==",) and b[1].is_const() and b[1].c != 0:
                            self.note_byte_nonzero(s, a[1])
                        out.append(s)
            return ts, fs
        # pointer nullness
        def nullness(v):
            return {"n": True, "p": False, "o": False, "f": False}.get(v[0])
        if op in ("==", "!="):
            na, nb = nullness(a), nullness(b)
            if na is not None and nb is not None and (na or nb):
                eq = na == nb
                res = eq if op == "==" else not eq
                (ts if res else fs).append(st)
                return ts, fs
            if (a[0] == "i" and a[1].is_const() and a[1].c == 0 and nb is not None) or (b[0] == "i" and b[1].is_const() and b[1].c == 0 and na is not None):
                isnull = nb if a[0] == "i" else na
                res = isnull if op == "==" else not isnull
                (ts if res else fs).append(st)
                return ts, fs
        s2 = st.copy()
        st.path.append("(%s)?" % X.render(n)[:30])
        s2.path.append("!(%s)?" % X.render(n)[:30])
        return [st], [s2]

    # ------------------------------------------------------------------ calls
    def ev_call(self, n, st):
        cn = X.callee_name(n)
        argn = n["ch"][1:]
        # evaluate arguments left to right
        combos = [(st, [])]
        for a in argn:
            nxt = []
            for s, vals in combos:
                for s2, v in self.ev(a, s):
                    nxt.append((s2, vals + [v]))
            combos = nxt
        res = []
        for s, vals in combos:
            res.extend(self.apply(cn, n, argn, vals, s))
        return res

    def cstr_len(self, st, v, node, what):
        """strlen-like read of the string at pointer v -> Lin length or None; checks the pointer"""
        if v[0] == "n":
            self.fail(st, "null", node, "NULL passed as a string (%s)" % what)
            return None
        if v[0] != "p":
            return None
        r = st.regions.get(v[1])
        if r is None:
            return None
        if r.freed:
            self.fail(st, "freed", node, "string in released memory (%s)" % what)
            return None
        self.oblige(st, "lower", node, v[2], "string pointer before the start of %s (%s)" % (r.name or r.kind, what))
        if r.slen is not None and (r.nul is None or entails(st.cons, r.slen - v[2])):
            # must start at or before the terminator
            self.oblige(st, "cursor", node, r.slen - v[2], "string pointer is past the terminator of %s (%s)" % (r.name or r.kind, what))
            return r.slen - v[2]
        if r.nul is not None and entails(st.cons, r.nul - v[2]):
            ln = fresh("sl")
            st.cons.append(Lin.sym(ln))
            st.cons.append(r.nul - v[2] - Lin.sym(ln))
            # the byte the string starts with was read and found non-zero on this path: the string is not empty
            c0 = st.heap.get(("cell", v[1], v[2]))
            if c0 is not None and c0[0] == "i" and (entails(st.cons, c0[1] - 1) or entails(st.cons, Lin.const(0) - c0[1] - 1)):
                st.cons.append(Lin.sym(ln) - 1)
            # the first terminator at or after v is ln bytes on: that is a known NUL position too, and the string length
            # when v is the start of the buffer
            r.nul = v[2] + Lin.sym(ln)
            if v[2].is_const() and v[2].c == 0:
                r.slen = Lin.sym(ln)
            return Lin.sym(ln)
        if r.cap is not None and r.kind not in ("external",):
            # no terminator known inside the buffer.  A heap block or local array that nothing has written yet on this path
            # holds indeterminate bytes: reading it as a string is a definite defect; otherwise the contents are unknown.
            never_written = r.kind in ("heap", "local") and r.wver == 0
            self.fail(st, "unterminated", node, "string function reads %s, which %s (%s)" % (
                r.name or r.kind, "has not been written on this path: the bytes are indeterminate and nothing bounds the read"
                if never_written else "holds no known terminator", what), undecided=not never_written)
            ln = fresh("sl")
            st.cons.append(Lin.sym(ln))
            st.imprecise.add(ln)
            self.note_terminator(st, r, v, ln)
            return Lin.sym(ln)
        ln = fresh("sl")
        st.cons.append(Lin.sym(ln))
        self.note_terminator(st, r, v, ln)
        return Lin.sym(ln)

    def note_terminator(self, st, r, v, ln):
        """the string function found a terminator ln bytes after v: later reads of the same (unwritten) buffer see the same one"""
        if r.nul is None and r.slen is None:
            r.nul = v[2] + Lin.sym(ln)
            if v[2].is_const() and v[2].c == 0:
                r.slen = Lin.sym(ln)

    def new_heap(self, st, size, node, name="heap block"):
        rid = st.new_region("heap", size, None, name, node)
        return P(rid, 0)

    def write_string(self, st, node, dst, length, what, terminated=True):
        """model writing `length`+1 bytes (string + NUL) at dst"""
        self.access(st, node, dst, length + 1, True, what)
        if dst[0] == "p":
            r = st.regions.get(dst[1])
            if r is not None:
                r.nul = dst[2] + length
                if dst[2].is_const() and dst[2].c == 0:
                    r.slen = length
                elif r.slen is not None:
                    # concatenation at the old terminator
                    if entails(st.cons, dst[2] - r.slen) and entails(st.cons, r.slen - dst[2]):
                        r.slen = dst[2] + length
                    else:
                        r.slen = None

    def forget_cells(self, st, rid=None):
        for kx in [kx for kx in st.heap if isinstance(kx, tuple) and kx and kx[0] == "cell" and
                   (rid is None or kx[1] == rid or (isinstance(kx[1], str) and kx[1].startswith("pure:")))]:
            del st.heap[kx]

    def clobber(self, st, dst, nbytes):
        if dst[0] == "p":
            self.forget_cells(st, dst[1])
            if ("addrof", dst[1]) in st.heap:
                # the callee may have stored through the address of this local: its value is whatever it stored
                d_ = st.heap[("addrof", dst[1])]
                nm_ = fresh("w")
                st.heap[("lval", dst[1])] = I(Lin.sym(nm_))
                st.imprecise.add(nm_) if hasattr(st, "imprecise") else None
                # ... and so are the fields of a struct local
                for kx in [kx for kx in st.heap if isinstance(kx, tuple) and len(kx) == 2 and kx[0] == ("dot", d_)]:
                    del st.heap[kx]
        if dst[0] == "p":
            r = st.regions.get(dst[1])
            if r is not None:
                if r.nul is not None and not (entails(st.cons, dst[2] - r.nul - 1) or entails(st.cons, r.nul - dst[2] - nbytes)):
                    r.nul = None
                if r.slen is not None and not entails(st.cons, dst[2] - r.slen - 1):
                    r.slen = None

    def apply(self, cn, n, argn, vals, st):
        A = vals

        def iv(i):
            return A[i][1] if i < len(A) and A[i][0] == "i" else None
        if cn in self.noreturn or cn in ("exit", "abort", "_exit"):
            return []
        if cn in ("malloc", "spifmem_malloc", "alloca", "__builtin_alloca"):
            sz = iv(0 if cn != "spifmem_malloc" else 2)
            return [(st, self.new_heap(st, sz, n) if sz is not None else UNK)]
        if cn in ("calloc",):
            a, b = iv(0), iv(1)
            sz = None
            if a is not None and b is not None:
                sz = a.scale(b.c) if b.is_const() else (b.scale(a.c) if a.is_const() else None)
            return [(st, self.new_heap(st, sz, n) if sz is not None else UNK)]
        if cn == "realloc":
            p, sz = A[0], iv(1)
            if p[0] == "p":
                old = st.regions.get(p[1])
                if old is not None:
                    if old.freed:
                        self.fail(st, "freed", n, "realloc of memory that was already released")
                    if old.kind not in ("heap",) and old.kind != "external":
                        pass
                    nv = self.new_heap(st, sz, n, old.name or "heap block") if sz is not None else UNK
                    if nv[0] == "p":
                        nr = st.regions[nv[1]]
                        if old.nul is not None and sz is not None and entails(st.cons, sz - old.nul - 1):
                            nr.nul = old.nul
                        if old.slen is not None and sz is not None and entails(st.cons, sz - old.slen - 1):
                            nr.slen = old.slen
                            if nr.nul is None:
                                nr.nul = old.slen        # the string's own terminator is inside the new block
                    old.freed = True
                    return [(st, nv)]
            if p[0] == "n":
                return [(st, self.new_heap(st, sz, n) if sz is not None else UNK)]
            return [(st, self.new_heap(st, sz, n) if sz is not None else UNK)]
        if cn in ("free", "spifmem_free"):
            p = A[0 if cn == "free" else 3]
            if p[0] == "p":
                r = st.regions.get(p[1])
                if r is not None:
                    if r.freed:
                        self.fail(st, "freed", n, "double free")
                    if r.kind in ("local", "literal", "field", "global"):
                        self.fail(st, "badfree", n, "free of %s, which is not heap memory" % (r.name or r.kind))
                    if not (p[2].is_const() and p[2].c == 0) and not entails(st.cons, p[2]) or (p[2].is_const() and p[2].c != 0):
                        self.fail(st, "badfree", n, "free of a pointer into the middle of a block (offset %s)" % p[2])
                    r.freed = True
            return [(st, UNK)]
        if cn in ("strdup", "spifmem_strdup", "__builtin_strdup"):
            p = A[0 if cn != "spifmem_strdup" else 3]
            ln = self.cstr_len(st, p, n, "strdup argument")
            if ln is None:
                if p[0] == "n":
                    return []
                ln = Lin.sym(fresh("sl"))
                st.cons.append(ln)
            v = self.new_heap(st, ln + 1, n, "strdup copy")
            r = st.regions[v[1]]
            r.slen = ln
            r.nul = ln
            return [(st, v)]
        if cn in ("strlen", "__builtin_strlen"):
            ln = self.cstr_len(st, A[0], n, "strlen argument")
            if ln is None:
                if A[0][0] == "n":
                    return []
                ln = Lin.sym(fresh("sl"))
                st.cons.append(ln)
            return [(st, I(ln))]
        if cn == "strnlen":
            ln = self.cstr_len(st, A[0], n, "strnlen argument") if A[0][0] == "p" and st.regions.get(A[0][1]) is not None and st.regions[A[0][1]].slen is not None else None
            r = fresh("snl")
            st.cons.append(Lin.sym(r))
            if iv(1) is not None:
                st.cons.append(iv(1) - Lin.sym(r))
                # reads at most min(len+1, max) bytes
                if A[0][0] == "p" and ln is None:
                    self.access(st, n, A[0], iv(1), False, "strnlen bound")
            if ln is not None:
                st.cons.append(ln - Lin.sym(r))
            return [(st, I(Lin.sym(r)))]
        if cn in ("memcpy", "memmove", "__builtin_memcpy", "__builtin_memmove", "__builtin___memcpy_chk", "__builtin___memmove_chk"):
            cnt = iv(2)
            if cnt is not None:
                self.oblige(st, "count", n, cnt, "negative byte count %s passed to %s" % (cnt, cn))
                self.access(st, n, A[1], cnt, False, "%s source" % cn)
                self.access(st, n, A[0], cnt, True, "%s destination" % cn)
                self.copy_effect(st, A[0], A[1], cnt)
            if A[1][0] in ("o", "p") and A[0][0] in ("o", "p"):
                sid, did = A[1][1], A[0][1]
                if A[1][0] == "o" or any(isinstance(kk, tuple) and len(kk) == 2 and kk[0] == sid for kk in st.heap):
                    for kk in list(st.heap):
                        if isinstance(kk, tuple) and len(kk) == 2 and kk[0] == sid and isinstance(kk[1], str):
                            st.heap[(did, kk[1])] = st.heap[kk]
            return [(st, A[0])]
        if cn in ("memset", "__builtin_memset", "__builtin___memset_chk"):
            cnt = iv(2)
            if cnt is not None:
                self.oblige(st, "count", n, cnt, "negative byte count %s passed to memset" % cnt)
                self.access(st, n, A[0], cnt, True, "memset destination")
                zero = A[1][0] == "i" and A[1][1].is_const() and A[1][1].c == 0
                if A[0][0] == "p":
                    r = st.regions.get(A[0][1])
                    if r is not None:
                        if zero and feasible(st.cons + [cnt - 1]):
                            if entails(st.cons, cnt - 1):
                                r.nul = A[0][2]
                                r.slen = None if not (A[0][2].is_const() and A[0][2].c == 0) else Lin.const(0)
                            else:
                                self.clobber(st, A[0], cnt)
                        else:
                            self.clobber(st, A[0], cnt)
            return [(st, A[0])]
        if cn in ("memcmp", "memchr", "memmem"):
            if cn == "memcmp" and iv(2) is not None:
                self.access(st, n, A[0], iv(2), False, "memcmp first operand")
                self.access(st, n, A[1], iv(2), False, "memcmp second operand")
                if self.check_value_extent:
                    self.value_extent(st, n, [A[0], A[1]], iv(2))
            if cn == "memchr" and iv(2) is not None:
                self.access(st, n, A[0], iv(2), False, "memchr haystack")
                return self.found_or_null(st, A[0], iv(2), n)
            if cn == "memmem" and iv(1) is not None and iv(3) is not None:
                self.access(st, n, A[0], iv(1), False, "memmem haystack")
                self.access(st, n, A[2], iv(3), False, "memmem needle")
                return self.found_or_null(st, A[0], iv(1), n)
            return [(st, I(Lin.sym(fresh("cmp"))))]
        if cn in ("strcpy", "__builtin_strcpy", "__builtin___strcpy_chk"):
            ln = self.cstr_len(st, A[1], n, "strcpy source")
            if ln is not None:
                self.write_string(st, n, A[0], ln, "strcpy destination")
            return [(st, A[0])]
        if cn in ("strcat", "__builtin_strcat", "__builtin___strcat_chk"):
            ld = self.cstr_len(st, A[0], n, "strcat destination")
            ls = self.cstr_len(st, A[1], n, "strcat source")
            if ld is not None and ls is not None and A[0][0] == "p":
                self.write_string(st, n, P(A[0][1], A[0][2] + ld), ls, "strcat destination")
            return [(st, A[0])]
        if cn in ("strncpy", "__builtin_strncpy", "__builtin___strncpy_chk"):
            if iv(2) is not None:
                self.access(st, n, A[0], iv(2), True, "strncpy destination")
                self.clobber(st, A[0], iv(2))
            return [(st, A[0])]
        if cn in ("strncat",):
            ld = self.cstr_len(st, A[0], n, "strncat destination")
            if ld is not None and iv(2) is not None and A[0][0] == "p":
                self.access(st, n, P(A[0][1], A[0][2] + ld), iv(2) + 1, True, "strncat destination")
                self.clobber(st, A[0], iv(2) + 1)
            return [(st, A[0])]
        if cn in ("strcmp", "strcasecmp", "strncmp", "strncasecmp", "__builtin_strcmp", "strcoll"):
            for i in (0, 1):
                if cn in ("strncmp", "strncasecmp"):
                    if A[i][0] == "n":
                        self.fail(st, "null", n, "NULL passed to %s" % cn)
                else:
                    self.cstr_len(st, A[i], n, "%s argument" % cn)
            return [(st, I(Lin.sym(fresh("cmp"))))]
        if cn in ("strchr", "strrchr", "strstr", "strcasestr", "strpbrk", "__builtin_strchr", "index", "rindex"):
            ln = self.cstr_len(st, A[0], n, "%s haystack" % cn)
            if cn in ("strstr", "strcasestr", "strpbrk"):
                self.cstr_len(st, A[1], n, "%s needle" % cn)
            if ln is None:
                return [(st, UNK)]
            # searching for NUL finds the terminator
            incl = 1 if cn in ("strchr", "strrchr", "__builtin_strchr", "index", "rindex") and not (A[1][0] == "i" and A[1][1].is_const() and A[1][1].c != 0) else 0
            # a pure search repeated on the same arguments (no write in between) gives the same answer
            mk = ("cell", "pure:" + cn, tuple(A))
            if mk in st.heap:
                return [(st, st.heap[mk])]
            outs = self.found_or_null(st, A[0], ln + incl, n, never_null=(incl == 1 and A[1][0] == "i" and A[1][1].is_const() and A[1][1].c == 0))
            for s_, v_ in outs:
                s_.heap[mk] = v_
            return outs
        if cn in ("snprintf", "vsnprintf", "__builtin___snprintf_chk", "__builtin___vsnprintf_chk"):
            if iv(1) is not None:
                self.oblige(st, "count", n, iv(1), "negative size passed to %s" % cn)
                self.access(st, n, A[0], iv(1), True, "%s buffer" % cn)
                size = iv(1)
                res = []
                rr = Lin.sym(fresh("pr"))
                # (a) everything fitted: returns the length written; (b) truncated: returns >= size, size-1 written;
                # (c) error: negative result, buffer contents unspecified
                # an output error is possible only for wide-character conversions (encoding error); a literal format without
                # them cannot fail
                fmt_i = 2 if cn in ("snprintf", "vsnprintf") else 4
                fmt = X.strip(argn[fmt_i]) if len(argn) > fmt_i else None
                can_fail = not (fmt is not None and fmt.get("k") == "str" and not re.search(r"%[-+ #0-9.*]*(l[sc]|S|C)", fmt.get("sv") or ""))
                for case, cons_, ln in (("fit", [rr, size - 1 - rr], rr), ("trunc", [rr - size, size - 1], size - 1), ("err", [-rr - 1], None)):
                    if case == "err" and not can_fail:
                        continue
                    s2 = st.copy()
                    s2.cons += cons_
                    if not feasible(s2.cons):
                        continue
                    s2.path.append("%s:%s" % (cn, case))
                    if A[0][0] == "p":
                        r = s2.regions.get(A[0][1])
                        if r is not None:
                            if ln is not None:
                                r.nul = A[0][2] + ln
                                r.slen = ln if (A[0][2].is_const() and A[0][2].c == 0) else None
                            else:
                                r.nul, r.slen = None, None
                    res.append((s2, I(rr)))
                return res
            return [(st, I(Lin.sym(fresh("pr"))))]
        if cn in ("sprintf", "vsprintf", "__builtin___sprintf_chk"):
            if A[0][0] == "p":
                r = st.regions.get(A[0][1])
                if r is not None and r.cap is not None and r.kind != "external":
                    self.fail(st, "unbounded", n, "unbounded sprintf into %s" % (r.name or r.kind), undecided=True)
                    r.nul, r.slen = None, None
            return [(st, I(Lin.sym(fresh("pr"))))]
        if cn == "fgets":
            if iv(1) is not None:
                s2 = st.copy()            # the NULL return: nothing is stored into the buffer
                self.access(st, n, A[0], iv(1), True, "fgets buffer")
                # success: a terminated string shorter than the size
                if A[0][0] == "p":
                    r = st.regions.get(A[0][1])
                    if r is not None:
                        ln = fresh("sl")
                        st.cons.append(Lin.sym(ln))
                        st.cons.append(iv(1) - 1 - Lin.sym(ln))
                        r.nul = A[0][2] + Lin.sym(ln)
                        r.slen = Lin.sym(ln) if (A[0][2].is_const() and A[0][2].c == 0) else None
                        r.wver += 1
                s2.path.append("fgets()==NULL")
                return [(st, A[0]), (s2, NULLV)]
            return [(st, UNK)]
        if cn in ("read", "recv", "fread"):
            if cn == "fread":
                a, b = iv(1), iv(2)
                cnt = None
                if a is not None and b is not None:
                    cnt = a.scale(b.c) if b.is_const() else (b.scale(a.c) if a.is_const() else None)
                buf = A[0]
                maxret = b
            else:
                cnt = iv(2)
                buf = A[1]
                maxret = cnt
            if cnt is not None:
                self.oblige(st, "count", n, cnt, "negative size passed to %s" % cn)
                self.access(st, n, buf, cnt, True, "%s buffer" % cn)
                self.clobber(st, buf, cnt)
            r = fresh("rd")
            st.cons.append(Lin.sym(r) + (1 if cn != "fread" else 0))
            if maxret is not None:
                st.cons.append(maxret - Lin.sym(r))
            return [(st, I(Lin.sym(r)))]
        if cn in ("write", "send", "fwrite"):
            if cn != "fwrite" and iv(2) is not None:
                self.access(st, n, A[1], iv(2), False, "%s buffer" % cn)
                r = fresh("wr")
                st.cons.append(Lin.sym(r) + 1)
                st.cons.append(iv(2) - Lin.sym(r))
                return [(st, I(Lin.sym(r)))]
            if cn == "fwrite" and iv(1) is not None and iv(2) is not None:
                a, b = iv(1), iv(2)
                tot = a.scale(b.c) if b.is_const() else (b.scale(a.c) if a.is_const() else None)
                if tot is not None:
                    self.oblige(st, "count", n, tot, "negative size passed to fwrite")
                    self.access(st, n, A[0], tot, False, "fwrite buffer")
                    r = fresh("wr")
                    st.cons.append(Lin.sym(r))
                    st.cons.append(b - Lin.sym(r))
                    return [(st, I(Lin.sym(r)))]
            return [(st, I(Lin.sym(fresh("wr"))))]
        if cn in ("getenv", "getprotobyname", "getservbyname", "gethostbyname", "fopen", "fdopen", "popen", "opendir", "readdir", "dlsym", "dlopen", "strerror", "getcwd"):
            if cn == "getenv":
                self.cstr_len(st, A[0], n, "getenv name")
                s2 = st.copy()
                ln = fresh("sl")
                st.cons.append(Lin.sym(ln))
                rid = st.new_region("external", None, Lin.sym(ln), "environment value")
                s2.path.append("getenv()==NULL")
                return [(st, P(rid, 0)), (s2, NULLV)]
            s2 = st.copy()
            rid = st.new_region("external", None, None, cn + " result")
            s2.path.append("%s()==NULL" % cn)
            return [(st, P(rid, 0)), (s2, NULLV)]
        if cn in ("isspace", "isdigit", "isalpha", "isalnum", "isupper", "islower", "ispunct", "isprint", "isxdigit", "iscntrl", "isgraph"):
            # false for NUL: a true result tells a string byte is not the terminator
            r = fresh("ct")
            st.cons.append(Lin.sym(r))
            st.cons.append(Lin.const(1) - Lin.sym(r))
            if A and A[0][0] == "i":
                b = self.byte_of(st, A[0][1])
                if b is not None:
                    st.heap[("ctype", r)] = b
            return [(st, I(Lin.sym(r)))]
        if cn in ("toupper", "tolower"):
            if A and A[0][0] == "i":
                r = fresh("tc")
                b = self.byte_of(st, A[0][1])
                if b is not None:
                    st.heap[("byte", r)] = b     # zero iff the original byte is zero
                return [(st, I(Lin.sym(r)))]
            return [(st, I(Lin.sym(fresh("tc"))))]
        if cn in ("__ctype_b_loc", "__ctype_tolower_loc", "__ctype_toupper_loc"):
            return [(st, UNK)]
        if cn == "spiftool_safe_strncpy" and self.prog.fn(cn) is not None and self.cur_fn is not None and self.cur_fn.name != cn and not self.summary_mode(cn):
            if iv(2) is not None:
                self.oblige(st, "count", n, iv(2) - 1, "spiftool_safe_strncpy called with size %s < 1" % iv(2))
                self.cstr_len(st, A[1], n, "safe_strncpy source")
                self.access(st, n, A[0], iv(2), True, "safe_strncpy destination")
                if A[0][0] == "p":
                    r = st.regions.get(A[0][1])
                    if r is not None:
                        ln = fresh("sl")
                        st.cons.append(Lin.sym(ln))
                        st.cons.append(iv(2) - 1 - Lin.sym(ln))
                        r.nul = A[0][2] + Lin.sym(ln)
                        r.slen = Lin.sym(ln) if (A[0][2].is_const() and A[0][2].c == 0) else None
            return [(st, I(Lin.sym(fresh("b"))))]
        fn_ = self.prog.fn(cn) if cn else None
        will_inline = fn_ is not None and self.inline and self.depth < self.MAX_INLINE and fn_.cfg is not None and not self.no_inline(fn_)
        if cn in COUNTED_READERS and len(A) > max(COUNTED_READERS[cn]) and not will_inline:
            pi_, li_ = COUNTED_READERS[cn]
            if A[li_][0] == "i":
                self.oblige(st, "slice", n, A[li_][1], "negative length %s passed to %s" % (A[li_][1], cn))
            if A[pi_][0] == "p":
                r_ = st.regions.get(A[pi_][1])
                if r_ is not None:
                    self.oblige(st, "lower", n, A[pi_][2], "%s is given a pointer before the start of %s" % (cn, r_.name or r_.kind))
                    bound = r_.slen if r_.slen is not None else (r_.nul if r_.nul is not None else None)
                    if bound is not None:
                        self.oblige(st, "cursor", n, bound - A[pi_][2], "%s is given a pointer past the terminator of %s" % (cn, r_.name or r_.kind))
        # libast function defined in the program: inline (bounded depth)
        fn = self.prog.fn(cn) if cn else None
        if fn is not None and self.inline and self.depth < self.MAX_INLINE and fn.cfg is not None and not self.no_inline(fn):
            return self.inline_call(fn, n, vals, st)
        # unknown / external / dispatch: fresh result; a buffer handed over through a pointer to non-const may have been
        # rewritten (its string length and terminator are no longer known)
        from .models import PURE_LIBC, MESSAGE_FUNCS
        for ai_, (a, v) in enumerate(zip(argn, vals)):
            if v[0] == "p" and cn not in PURE_LIBC and cn not in MESSAGE_FUNCS:
                tt = (a.get("tc") or a.get("t") or "")
                if fn is not None and fn.body is not None and not self.may_write_through(fn, ai_):
                    continue
                if ai_ in self.READ_ONLY_ARGS.get(cn, ()) or (cn in self.READ_ONLY_FROM and ai_ >= self.READ_ONLY_FROM[cn]):
                    continue
                if not re.search(r"\bconst\b[^*]*\*\s*(const)?\s*$", tt) and not re.match(r"\s*const\b", tt):
                    r_ = st.regions.get(v[1])
                    if r_ is not None and r_.kind in ("heap", "local"):
                        self.forget_cells(st, v[1])
                        r_.slen, r_.nul = None, None
                        r_.wver += 1
        for a, v in zip(argn, vals):
            sa = X.strip(a)
            if sa.get("k") == "un" and sa.get("op") == "&":
                inner = X.strip(sa["ch"][0])
                if inner.get("k") == "ref":
                    st.env[inner["d"]] = self.fresh_for(st, inner, "out_")
                    if st.env[inner["d"]][0] == "i":
                        st.imprecise.add(st.env[inner["d"]][1].t[0][0])
        if n.get("tp"):
            return [(st, UNK)]
        if n.get("tw"):
            r_ = fresh("r_%s_" % (cn or "call"))
            st.imprecise.add(r_)      # nothing is known about the value an unmodelled callee returns
            return [(st, I(Lin.sym(r_)))]
        return [(st, UNK)]

    def summary_mode(self, cn):
        return False

    # positions of a libc call through which the pointee is only read
    READ_ONLY_ARGS = {"memcpy": (1,), "memmove": (1,), "strcpy": (1,), "strncpy": (1,), "strcat": (1,), "strncat": (1,),
                      "strdup": (0,), "strndup": (0,), "fputs": (0,), "fwrite": (0,), "write": (1,), "send": (1,), "puts": (0,),
                      "__builtin___memcpy_chk": (1,), "__builtin___memmove_chk": (1,), "__builtin___strcpy_chk": (1,),
                      "__builtin___strncpy_chk": (1,), "__builtin___strcat_chk": (1,), "__builtin___strncat_chk": (1,),
                      "__builtin_memcpy": (1,), "__builtin_strcpy": (1,), "open": (0,), "fopen": (0, 1), "stat": (0,),
                      "lstat": (0,), "access": (0,), "unlink": (0,), "remove": (0,), "opendir": (0,), "popen": (0, 1), "system": (0,),
                      "getprotobyname": (0,), "getservbyname": (0, 1), "gethostbyname": (0,), "dlopen": (0,), "dlsym": (1,),
                      "regcomp": (1,), "pcre_compile": (0,), "inet_addr": (0,), "setenv": (0, 1), "chdir": (0,)}
    READ_ONLY_FROM = {"printf": 0, "fprintf": 1, "snprintf": 2, "sprintf": 1, "__builtin___snprintf_chk": 4, "__builtin___sprintf_chk": 3,
                      "__builtin___fprintf_chk": 2, "__builtin___printf_chk": 1, "syslog": 1}

    def may_write_through(self, fn, j):
        """May fn (a libast function that is not being inlined) store through its pointer parameter j, or let the pointer
        escape?  A may-analysis over every use of the parameter and of the locals it is copied to: only reads, tests,
        read-only libc positions and callees for which the same holds are harmless."""
        from .models import PURE_LIBC, MESSAGE_FUNCS
        memo = self.__dict__.setdefault("_mw", {})
        key = (fn.name, j)
        if key in memo:
            return memo[key]
        memo[key] = True          # recursion: assume the worst
        if fn.body is None or j >= len(fn.params):
            return True
        tracked = {fn.params[j]["d"]}
        res = False
        changed = True
        while changed and not res:
            changed = False
            for x in walk(fn.body):
                if res:
                    break
                if x.get("k") != "ref" or x.get("d") not in tracked:
                    continue
                cur = x
                while True:
                    p = fn.parent.get(cur["i"])
                    if p is None:
                        break
                    k = p.get("k")
                    if k in ("paren", "cast", "icast") or (k == "bin" and p.get("op") in ("+", "-") and p.get("tp")) or \
                            (k == "cond" and p["ch"][0] is not cur) or (k == "bin" and p.get("op") == ","):
                        cur = p
                        continue
                    break
                if p is None:
                    continue
                k = p.get("k")
                if (k == "un" and p.get("op") == "*") or (k == "index" and p["ch"][0] is cur) or (k == "member" and p.get("arrow")):
                    lv = p
                    while True:
                        q = fn.parent.get(lv["i"])
                        if q is not None and (q.get("k") in ("paren",) or (q.get("k") == "member" and not q.get("arrow")) or
                                              (q.get("k") == "index" and q["ch"][0] is lv and not lv.get("tp"))):
                            lv = q
                            continue
                        break
                    if q is None:
                        continue
                    if (q.get("k") == "assign" and q["ch"][0] is lv) or (q.get("k") == "un" and q.get("op") in ("++", "--", "&")):
                        res = True
                    # otherwise a read; a pointer loaded through the parameter (p->s) designates another object
                    continue
                if k == "assign":
                    if p["ch"][0] is cur:
                        continue          # the parameter itself is re-pointed / advanced
                    l = X.strip(p["ch"][0])
                    if l.get("k") == "ref" and l.get("rk") in ("local", "param") and p.get("op") == "=":
                        if l["d"] not in tracked:
                            tracked.add(l["d"])
                            changed = True
                        continue
                    res = True
                    continue
                if k == "decl":
                    for dcl in p.get("decls", ()):
                        if dcl.get("init") is cur and dcl["d"] not in tracked:
                            tracked.add(dcl["d"])
                            changed = True
                    continue
                if k == "un" and p.get("op") in ("++", "--", "!"):
                    continue
                if k == "bin" and p.get("op") in ("==", "!=", "<", ">", "<=", ">=", "&&", "||", "-"):
                    continue
                if k in ("if", "while", "for", "do", "cond", "switch", "block", "compound", "exprstmt"):
                    continue
                if k == "call":
                    if p["ch"][0] is cur:
                        res = True
                        continue
                    idx = [i_ for i_, a_ in enumerate(p["ch"][1:]) if a_ is cur]
                    cn = X.callee_name(p)
                    if not idx or cn is None:
                        res = True
                        continue
                    ai = idx[0]
                    if cn in PURE_LIBC or cn in MESSAGE_FUNCS or ai in self.READ_ONLY_ARGS.get(cn, ()) or \
                            (cn in self.READ_ONLY_FROM and ai >= self.READ_ONLY_FROM[cn]):
                        continue
                    g = self.prog.fn(cn)
                    if g is not None and not self.may_write_through(g, ai):
                        continue
                    res = True
                    continue
                res = True
        memo[key] = res
        return res

    check_value_extent = False

    def value_extent(self, st, n, ptrs, count):
        """(C07 E2) a comparison whose operands are BOTH buffers of value objects looks only at their values: the count does not
        exceed the len of either object (bytes between len and size are capacity, not content)"""
        owners = []
        for pv in ptrs:
            if pv[0] != "p":
                return
            own_ = None
            for kx, v in st.heap.items():
                if isinstance(kx, tuple) and len(kx) == 2 and kx[1] in ("buff", "s") and isinstance(v, tuple) and v and v[0] == "p" and v[1] == pv[1]:
                    ln = st.heap.get((kx[0], "len"))
                    if ln is not None and ln[0] == "i":
                        own_ = (kx[0], ln[1], pv[2] - v[2])
            if own_ is None:
                return                  # an operand that is not the buffer of an object: the caller's business
            owners.append(own_)
        for oid, ln, off in owners:
            self.oblige(st, "extent", n, ln - off - count,
                        "comparison of %s byte(s) reads beyond the %s byte(s) that are the object's value (up to its capacity)" % (count, ln))

    def no_inline(self, fn):
        return len(fn.nodes) > 1500 or fn.name.startswith("libast_") or fn.name.startswith("spifmem_")

    def found_or_null(self, st, base, span, n, never_null=False):
        """result of a search inside [base, base+span): NULL or a pointer into it"""
        if base[0] != "p":
            return [(st, UNK)]
        res = []
        if not never_null:
            s2 = st.copy()
            s2.path.append("%s()==NULL" % (X.callee_name(n) or "search"))
            res.append((s2, NULLV))
        if feasible(st.cons + [span - 1]):
            o = fresh("hit")
            st.cons.append(Lin.sym(o))
            st.cons.append(span - 1 - Lin.sym(o))
            res.append((st, P(base[1], base[2] + Lin.sym(o))))
        return res

    def copy_effect(self, st, dst, src, cnt):
        """track terminators carried by a copy"""
        pre_terms = ()
        if src[0] == "p" and st.regions.get(src[1]) is not None:
            pre_terms = (st.regions[src[1]].slen, st.regions[src[1]].nul)
            pre_slen = st.regions[src[1]].slen
        self.clobber(st, dst, cnt)
        if dst[0] == "p" and src[0] == "p":
            rd, rs = st.regions.get(dst[1]), st.regions.get(src[1])
            if rd is None or rs is None:
                return
            # if the copied range covers the source's terminator, the destination gets one at the same relative place
            for term in pre_terms:
                if term is not None and entails(st.cons, term - src[2]) and entails(st.cons, src[2] + cnt - term - 1):
                    rd.nul = dst[2] + (term - src[2])
                    if term is pre_slen:
                        if dst[2].is_const() and dst[2].c == 0:
                            rd.slen = term - src[2]
                        elif rd.slen is not None and entails(st.cons, rd.slen - dst[2]):
                            # text before the copy had no terminator before dst: the string now ends at the copied terminator
                            rd.slen = None
                    break

    def inline_call(self, fn, n, vals, st):
        self.depth += 1
        saved_fn = self.cur_fn
        saved_env = st.env
        try:
            s = st
            s.env = dict()
            for p, v in zip(fn.params, vals):
                s.env[p["d"]] = v
            s.ret = None
            self.cur_fn_inl = fn
            out = self.exec(fn.body, s)
            res = []
            for r in out["ret"] + out["norm"]:
                rv = r.ret if r.ret is not None else UNK
                r.ret = None
                r.env = dict(saved_env)
                res.append((r, rv))
            return res
        finally:
            self.depth -= 1
            self.cur_fn = saved_fn

    # ------------------------------------------------------------------ state merging
    def merge(self, states, limit=12):
        """Join states that agree on every pointer, region fact and object shape; integers that differ become
        fresh (imprecise) symbols and only the common constraints are kept.  Sound (a weaker state), applied only
        when the frontier grows beyond `limit`."""
        if len(states) <= limit:
            return states
        groups = {}
        order = []
        for st in states:
            sig = []
            live = set()
            for d in sorted(st.env, key=lambda x: str(x)):
                v = st.env[d]
                if v[0] == "i" and v[1].is_const() and v[1].c < 0:
                    sig.append((d, ("i", v[1].c)))      # a negative constant is a sentinel ("not found"), not a position: kept apart
                else:
                    sig.append((d, v if v[0] != "i" else "i"))
                if v[0] == "p":
                    live.add(v[1])
            for kx in sorted(st.heap, key=lambda x: str(x)):
                if isinstance(kx, tuple) and kx and kx[0] in ("byte", "ctype", "addrof", "cell", "ctmemo", "andmemo"):
                    continue      # bookkeeping about individual reads: not part of the program state
                v = st.heap[kx]
                if isinstance(v, tuple) and v and v[0] == "i":
                    sig.append((kx, "i"))
                else:
                    sig.append((kx, v))
                    if isinstance(v, tuple) and v and v[0] == "p":
                        live.add(v[1])
            if st.ret is not None and st.ret[0] == "p":
                live.add(st.ret[1])
            for rid in sorted(live):
                r = st.regions.get(rid)
                if r is not None:
                    sig.append((rid, r.freed, r.cap, r.slen, r.nul))
            if st.ret is not None and st.ret[0] == "i" and st.ret[1].is_const() and st.ret[1].c < 0:
                sig.append(("ret", ("i", st.ret[1].c)))
            else:
                sig.append(("ret", st.ret if st.ret is None or st.ret[0] != "i" else "i"))
            key = repr(sig)
            if key not in groups:
                groups[key] = []
                order.append(key)
            groups[key].append(st)
        out = []
        for key in order:
            g = groups[key]
            if len(g) == 1:
                out.append(g[0])
                continue
            base = g[0].copy()
            common = set(g[0].cons)
            for st in g[1:]:
                common &= set(st.cons)
                base.imprecise |= st.imprecise
                for kx, v in st.heap.items():
                    if isinstance(kx, tuple) and kx and kx[0] in ("byte", "ctype", "addrof"):
                        base.heap.setdefault(kx, v)
                for kx in [kx for kx in base.heap if isinstance(kx, tuple) and kx and kx[0] in ("cell", "ctmemo", "andmemo") and st.heap.get(kx) != base.heap[kx]]:
                    del base.heap[kx]
                for rid, r in st.regions.items():
                    base.regions.setdefault(rid, r)
            base.cons = [c for c in g[0].cons if c in common]
            # bounds every merged state agrees on (against 0 and the string length / terminator / capacity of live regions)
            refs = [Lin.const(0)]
            for rg in base.regions.values():
                for t_ in (rg.slen, rg.nul, rg.cap):
                    if t_ is not None and t_ not in refs and len(refs) < 10:
                        refs.append(t_)

            def carry(x, getter):
                for t_ in refs:
                    for off in (1, 0):            # the strict bound first (x >= t + 1 / x <= t - 1), then the weak one
                        if all(getter(st) is not None and entails(st.cons, getter(st) - t_ - off) for st in g):
                            base.cons.append(Lin.sym(x) - t_ - off)
                            break
                    for off in (1, 0):
                        if all(getter(st) is not None and entails(st.cons, t_ - getter(st) - off) for st in g):
                            base.cons.append(t_ - Lin.sym(x) - off)
                            break
            merged_vars = []
            for d in list(base.env):
                v = base.env[d]
                if v[0] == "i" and any(st.env.get(d) != v for st in g[1:]):
                    x = fresh("mg")
                    base.env[d] = I(Lin.sym(x))
                    base.imprecise.add(x)
                    getter = (lambda st, d=d: st.env[d][1] if st.env.get(d) is not None and st.env[d][0] == "i" else None)
                    carry(x, getter)
                    # the merged values differ by constants only (i + 1 on one path, i + 2 on another): the merged value lies
                    # between the smallest and the largest of them
                    vals_ = [getter(st) for st in g]
                    if all(v_ is not None for v_ in vals_):
                        dif_ = [v_ - vals_[0] for v_ in vals_]
                        if all(d_.is_const() for d_ in dif_):
                            lo_, hi_ = min(d_.c for d_ in dif_), max(d_.c for d_ in dif_)
                            base.cons.append(Lin.sym(x) - vals_[0] - lo_)
                            base.cons.append(vals_[0] + hi_ - Lin.sym(x))
                    merged_vars.append((x, getter))
            # order relations between a merged variable and an integer local every merged state agrees on (a position found at or
            # after `pos`: found >= pos whichever way it was found)
            same_ints = []
            for d in base.env:
                v = base.env[d]
                if v[0] == "i" and not v[1].is_const() and all(st.env.get(d) == v for st in g[1:]):
                    same_ints.append(v[1])
            if len(same_ints) <= 12:
                for x1, g1 in merged_vars:
                    if any(g1(st) is None for st in g):
                        continue
                    for w_ in same_ints:
                        for sign in (1, -1):
                            for c_ in (1, 0):
                                if all(entails(st.cons, (g1(st) - w_).scale(sign) - c_) for st in g):
                                    base.cons.append((Lin.sym(x1) - w_).scale(sign) - c_)
                                    break
            # order relations between two merged variables that hold in every merged state (first <= last, i <= j + 1 ...)
            for i_ in range(len(merged_vars)):
                for j_ in range(i_ + 1, len(merged_vars) if len(merged_vars) <= 10 else min(len(merged_vars), i_ + 6)):
                    (x1, g1), (x2, g2) = merged_vars[i_], merged_vars[j_]
                    if any(g1(st) is None or g2(st) is None for st in g):
                        continue
                    for sign in (1, -1):
                        for c_ in (1, 0, -1):
                            # sign*(v1 - v2) - c >= 0 in every state?
                            if all(entails(st.cons, (g1(st) - g2(st)).scale(sign) - c_) for st in g):
                                base.cons.append((Lin.sym(x1) - Lin.sym(x2)).scale(sign) - c_)
                                break
            for kx in list(base.heap):
                v = base.heap[kx]
                if isinstance(v, tuple) and v and v[0] == "i" and any(st.heap.get(kx) != v for st in g[1:]):
                    x = fresh("mg")
                    base.heap[kx] = I(Lin.sym(x))
                    base.imprecise.add(x)
            if base.ret is not None and base.ret[0] == "i" and any(st.ret != base.ret for st in g[1:]):
                x = fresh("mg")
                vals_ = [st.ret[1] if (st.ret is not None and st.ret[0] == "i") else None for st in g]
                base.ret = I(Lin.sym(x))
                base.imprecise.add(x)
                if all(v_ is not None for v_ in vals_):
                    dif_ = [v_ - vals_[0] for v_ in vals_]
                    if all(d_.is_const() for d_ in dif_):
                        base.cons.append(Lin.sym(x) - vals_[0] - min(d_.c for d_ in dif_))
                        base.cons.append(vals_[0] + max(d_.c for d_ in dif_) - Lin.sym(x))
            base.path = base.path[:4] + ["<%d paths merged>" % len(g)]
            out.append(base)
        return out

    # ------------------------------------------------------------------ statements
    def exec(self, n, st):
        """-> {'norm': [...], 'brk': [...], 'cont': [...], 'ret': [...]}"""
        self.nstates += 1
        if self.nstates > 150000:
            raise TooManyStates()
        if self.deadline is not None and (self.nstates & 63) == 0 and time.process_time() > self.deadline:
            raise TooManyStates()          # CPU-time budget of this function used up (process time, so the result does not depend on the load of the machine): the exploration is partial (noted)
        k = n.get("k")
        out = {"norm": [], "brk": [], "cont": [], "ret": []}
        if k == "block":
            states = [st]
            for c in n.get("ch", []):
                if c.get("k") == "label" and self.pending_gotos:
                    # forward jumps to this label (goto line_done; ... line_done: cleanup) arrive here
                    fname_ = self.cur_fn.name if self.cur_fn else None
                    here_ = [g_ for g_ in self.pending_gotos if g_[0] == c.get("n") and g_[2] == fname_ and g_[3] == self.depth]
                    if here_:
                        self.pending_gotos = [g_ for g_ in self.pending_gotos if not (g_[0] == c.get("n") and g_[2] == fname_ and g_[3] == self.depth)]
                        states = states + [g_[1] for g_ in here_]
                if not states:
                    if c.get("k") == "label" or any(y.get("k") == "label" for y in walk(c)):
                        continue          # nothing flows in here yet; a later jump may still target a label further down
                    break
                nxt = []
                for s in states:
                    o = self.exec(c, s)
                    nxt.extend(o["norm"])
                    for key in ("brk", "cont", "ret"):
                        out[key].extend(o[key])
                states = self.merge(nxt)
                if len(states) > self.MAX_STATES:
                    raise TooManyStates()
                if not states and not self.pending_gotos:
                    break
            out["norm"] = states
            for key in ("brk", "cont", "ret"):
                out[key] = self.merge(out[key], 24)
            return out
        if k == "decl":
            states = [st]
            for d in n.get("decls", ()):
                nxt = []
                for s in states:
                    t = type_str(d)
                    if d.get("alen") is not None:
                        cap = Lin.const(d["alen"] * d.get("esz", 1))
                        rid = s.new_region("local", cap, None, d["n"] + "[%d]" % d["alen"], n)
                        s.env[d["d"]] = P(rid, 0)
                        if d.get("init") is not None:
                            ini = X.strip(d["init"])
                            if ini.get("k") == "str":
                                s.regions[rid].slen = Lin.const(len((ini.get("sv") or "").split("\0")[0]))
                                s.regions[rid].nul = s.regions[rid].slen
                            elif ini.get("k") == "initlist":
                                s.regions[rid].nul = Lin.const(0) if not ini.get("ch") else None
                        nxt.append(s)
                    elif d.get("init") is not None:
                        for s2, v in self.ev(d["init"], s):
                            s2.env[d["d"]] = v
                            nxt.append(s2)
                    else:
                        s.env.pop(d["d"], None)
                        s.env[d["d"]] = ("uninit", d["n"])
                        nxt.append(s)
                states = nxt
            out["norm"] = states
            return out
        if k == "null":
            out["norm"] = [st]
            return out
        if k == "if":
            if self.skip_debug_arms:
                c0 = X.strip(n["cond"])
                if c0.get("k") == "bin" and X.strip(c0["ch"][0]).get("n") == "libast_debug_level" and X.const_val(c0["ch"][1]) is not None:
                    # runtime debug level arms only log (D_*, REQUIRE) or end the path (ASSERT's fatal arm): follow the quiet arm
                    if n.get("else") is not None:
                        return self.exec(n["else"], st)
                    out["norm"].append(st)
                    return out
            ts, fs = self.branch(n["cond"], st)
            for s in ts:
                o = self.exec(n["then"], s)
                for key in out:
                    out[key].extend(o[key])
            for s in fs:
                if n.get("else") is not None:
                    o = self.exec(n["else"], s)
                    for key in out:
                        out[key].extend(o[key])
                else:
                    out["norm"].append(s)
            return out
        if k == "return":
            if self.loop_stack:
                self.on_break(n, st)          # a return from inside a loop leaves it as well
            if n.get("val") is not None:
                for s, v in self.ev(n["val"], st):
                    s.ret = v
                    out["ret"].append(s)
            else:
                st.ret = ("void",)
                out["ret"].append(st)
            return out
        if k == "break":
            self.on_break(n, st)
            out["brk"].append(st)
            return out
        if k == "continue":
            out["cont"].append(st)
            return out
        if k in ("while", "for", "do"):
            return self.exec_loop(n, st)
        if k == "switch":
            self.loop_stack.append(n)          # a `break` inside leaves the switch, not the enclosing loop
            try:
                return self.exec_switch(n, st)
            finally:
                self.loop_stack.pop()
        if k in ("case", "default"):
            return self.exec(n["sub"], st) if n.get("sub") is not None else {"norm": [st], "brk": [], "cont": [], "ret": []}
        if k == "label":
            return self.exec(n["sub"], st)
        if k == "goto":
            fn_ = self.cur_fn
            lab_ = [y for y in walk(fn_.body) if y.get("k") == "label" and y.get("n") == n.get("n")] if fn_ is not None else []
            if self.record and lab_ and lab_[0]["i"] > n["i"] and len(self.pending_gotos) < 64:
                # a forward jump: the state continues at the label (picked up by the block that holds it)
                self.pending_gotos.append((n.get("n"), st, fn_.name, self.depth))
                return out
            self.notes.append("goto in %s: path abandoned" % (self.cur_fn.name if self.cur_fn else "?"))
            return out
        # expression statement
        for s, _ in self.ev(n, st):
            out["norm"].append(s)
        return out

    def exec_switch(self, n, st):
        out = {"norm": [], "brk": [], "cont": [], "ret": []}
        body = n["body"]
        seq = []
        for s in body.get("ch", []) if body.get("k") == "block" else [body]:
            while s is not None and s.get("k") in ("case", "default"):
                seq.append(("label", s))
                s = s.get("sub")
            if s is not None:
                seq.append(("stmt", s))
        labels = [(i, x) for i, (t, x) in enumerate(seq) if t == "label"]
        cond_ = n["cond"]
        inner_ = X.strip(cond_)
        if inner_ is not None and inner_ is not cond_ and (inner_.get("tw") or 0) == 8 and not inner_.get("tp") and inner_.get("k") in ("un", "index", "ref"):
            # switch (*p): the promoted byte is compared with character constants - evaluate the byte itself, so that the case
            # taken (and the default, which excludes every label) says what the byte is, as a test `*p == c` would
            cond_ = inner_
        for s0, v in self.ev(cond_, st):
            entry = []   # (state, start index)
            remaining = [s0]
            default_idx = None
            for i, lab in labels:
                if lab.get("k") == "default":
                    default_idx = i
                    continue
                cv = X.const_val(lab["val"])
                nxt = []
                for s in remaining:
                    if v[0] == "i" and cv is not None:
                        ts, fs = self.compare(s, "==", v, I(cv), lab)
                        for t in ts:
                            entry.append((t, i))
                        nxt.extend(fs)
                    else:
                        entry.append((s.copy(), i))
                        nxt.append(s)
                remaining = nxt
            for s in remaining:
                if default_idx is not None:
                    entry.append((s, default_idx))
                else:
                    out["norm"].append(s)
            for s, i in entry:
                states = [s]
                for t, x in seq[i + 1:]:
                    if t != "stmt":
                        continue
                    nxt = []
                    for s2 in states:
                        o = self.exec(x, s2)
                        nxt.extend(o["norm"])
                        out["norm"].extend(o["brk"])
                        out["cont"].extend(o["cont"])
                        out["ret"].extend(o["ret"])
                    states = nxt
                    if not states:
                        break
                out["norm"].extend(states)
        return out

    # ------------------------------------------------------------------ loops
    def modified_in(self, n):
        """(set of local decl ids, set of heap field names, writes memory?) assigned inside n"""
        locs, fields = set(), set()
        for x in walk(n):
            tgt = None
            if x.get("k") == "assign":
                tgt = x["ch"][0]
            elif x.get("k") == "un" and x.get("op") in ("++", "--"):
                tgt = x["ch"][0]
            elif x.get("k") == "decl":
                for d in x.get("decls", ()):
                    locs.add(d["d"])
            if tgt is not None:
                t = X.strip(tgt)
                if t.get("k") == "ref":
                    locs.add(t["d"])
                elif t.get("k") == "member":
                    fields.add(t["n"])
            if x.get("k") == "call":
                for a in x["ch"][1:]:
                    sa = X.strip(a)
                    if sa.get("k") == "un" and sa.get("op") == "&":
                        inner = X.strip(sa["ch"][0])
                        if inner.get("k") == "ref":
                            locs.add(inner["d"])
        return locs, fields

    def on_break(self, n, st):
        """hook: a `break` is about to leave the innermost loop (self.loop_stack[-1]) in state st"""
        return None

    def exec_loop(self, n, st):
        self.loop_stack.append(n)
        try:
            return self._exec_loop(n, st)
        finally:
            self.loop_stack.pop()

    def _exec_loop(self, n, st):
        out = {"norm": [], "brk": [], "cont": [], "ret": []}
        k = n["k"]
        states = [st]
        if k == "for" and n.get("init") is not None:
            states = self.exec(n["init"], st)["norm"]
        if k == "do":
            # do B while (c)  ==  B ; while (c) B
            nxt = []
            for s in states:
                o = self.exec(n["body"], s)
                out["ret"].extend(o["ret"])
                out["norm"].extend(o["brk"])
                nxt.extend(o["norm"] + o["cont"])
            states = nxt
        for s in states:
            o = self.loop_from(n, s)
            for key in out:
                out[key].extend(o[key])
        return out

    def loop_from(self, n, pre):
        out = {"norm": [], "brk": [], "cont": [], "ret": []}
        k = n["k"]
        f0 = []
        if n.get("cond") is not None:
            # the first evaluation of the condition happens in the exact entry state (obligations recorded)
            t0, f0 = self.branch(n["cond"], pre.copy())
            if not t0:
                out["norm"].extend(f0)
                return out
        parts = [n.get(x) for x in ("cond", "body", "inc") if n.get(x) is not None]
        locs, fields = set(), set()
        for p in parts:
            a, b = self.modified_in(p)
            locs |= a
            fields |= b
        # pointer locals that are only moved relative to themselves inside the loop stay in their region
        self_rel = {}
        for p_ in parts:
            for x in walk(p_):
                if x.get("k") == "assign":
                    t = X.strip(x["ch"][0])
                    if t.get("k") == "ref" and t.get("tp"):
                        ok_ = x.get("op") in ("+=", "-=")
                        if x.get("op") == "=":
                            r_ = X.strip(x["ch"][1])
                            while r_ is not None and r_.get("k") == "bin" and r_.get("op") in ("+", "-") and r_.get("tp"):
                                r_ = X.strip(r_["ch"][0])
                            ok_ = r_ is not None and r_.get("k") == "ref" and r_.get("d") == t["d"]
                        self_rel[t["d"]] = self_rel.get(t["d"], True) and ok_
                if x.get("k") == "decl":
                    for d_ in x.get("decls", ()):
                        if d_.get("tp"):
                            self_rel[d_["d"]] = False

        # pointers the loop re-points (p = buf + used; obj->s = realloc(obj->s, ..)) that all designate one live heap block on
        # entry: in the summary they designate one common live heap block again (a fresh region whose capacity, string length
        # and terminator are loop-carried symbols), provided every way round the loop re-establishes that shape
        def find_groups(base, disabled):
            cand = {}
            for d in locs:
                v = base.env.get(d)
                if v is not None and v[0] == "p" and not self_rel.get(d, True):
                    cand.setdefault(v[1], []).append(d)
            for key in base.heap:
                if isinstance(key, tuple) and len(key) == 2 and key[1] in fields and not isinstance(key[0], tuple) and \
                        key[0] not in ("byte", "ctype", "global", "addrof", "cell"):
                    v = base.heap[key]
                    if v[0] == "p":
                        cand.setdefault(v[1], []).append(key)
            out_ = {}
            for rid, keys_ in cand.items():
                r0 = base.regions.get(rid)
                if rid in disabled or r0 is None or r0.kind != "heap" or r0.freed or r0.cap is None:
                    continue
                if not any(isinstance(k_, tuple) for k_ in keys_):
                    continue        # only locals: the block itself is not replaced through an owner
                others = [k_ for k_, v_ in list(base.env.items()) + list(base.heap.items())
                          if isinstance(v_, tuple) and v_ and v_[0] == "p" and len(v_) > 1 and v_[1] == rid and k_ not in keys_]
                if others:
                    continue
                out_[rid] = keys_
            return out_

        def group_region(e, keys_):
            rid_ = None
            for k_ in keys_:
                v_ = e.env.get(k_) if not isinstance(k_, tuple) else e.heap.get(k_)
                if v_ is None or v_[0] != "p":
                    return None
                if rid_ is None:
                    rid_ = v_[1]
                elif rid_ != v_[1]:
                    return None
            r_ = e.regions.get(rid_)
            if r_ is None or r_.freed or r_.kind != "heap":
                return None
            return r_

        # a byte local that holds the byte under a cursor at the loop head (c = *s; while (c ..) { ..; s++; c = *s; }): in the
        # summary it is again the byte at the cursor's (havocked) position - checked like the other shapes: it must hold on
        # entry and be re-established by every way round, else the local is an unknown integer
        byteholders = {}
        for p_ in parts:
            for x in walk(p_):
                if x.get("k") == "assign" and x.get("op") == "=":
                    l_, r_ = X.strip(x["ch"][0]), X.strip(x["ch"][1])
                    if l_ is not None and l_.get("k") == "ref" and l_.get("rk") == "local" and not l_.get("tp") and (l_.get("tw") or 0) == 8 and \
                            r_ is not None and r_.get("k") == "un" and r_.get("op") == "*":
                        t_ = X.strip(r_["ch"][0])
                        if t_ is not None and t_.get("k") == "ref" and t_.get("rk") in ("local", "param") and t_.get("tp"):
                            if byteholders.get(l_["d"], t_["d"]) != t_["d"]:
                                byteholders[l_["d"]] = None
                            else:
                                byteholders[l_["d"]] = t_["d"]
        byteholders = {c_: s_ for c_, s_ in byteholders.items() if s_ is not None and c_ in locs}

        def holds_byte(sx, c_, s_):
            cv_, sv_ = sx.env.get(c_), sx.env.get(s_)
            if cv_ is None or sv_ is None or cv_[0] != "i" or sv_[0] != "p":
                return False
            cell_ = sx.heap.get(("cell", sv_[1], sv_[2]))
            return cell_ is not None and cell_ == cv_
        # havoc
        nullkeys = set()
        bhkeys = set()
        disabled_now = set()

        def havoc(base, groups=()):
            h = base.copy()
            sub = {}
            gkeys = set()
            nullkeys.clear()
            for rid0, keys_ in (groups or {}).items():
                r0 = base.regions[rid0]
                rc = fresh("rc")
                nr = h.new_region("heap", Lin.sym(rc), None, r0.name, r0.site)
                h.regions[nr].wver = max(1, r0.wver)
                h.imprecise.add(rc)
                h.cons.append(Lin.sym(rc))
                sub[("gcap", rid0)] = ("i", rc, r0.cap)
                if r0.slen is not None:
                    x = fresh("rs")
                    h.imprecise.add(x)
                    h.cons.append(Lin.sym(x))
                    h.regions[nr].slen = Lin.sym(x)
                    sub[("gslen", rid0)] = ("i", x, r0.slen)
                if r0.nul is not None:
                    x = fresh("rn")
                    h.imprecise.add(x)
                    h.cons.append(Lin.sym(x))
                    h.regions[nr].nul = Lin.sym(x)
                    sub[("gnul", rid0)] = ("i", x, r0.nul)
                for k_ in keys_:
                    v = base.env.get(k_) if not isinstance(k_, tuple) else base.heap.get(k_)
                    x = fresh("lo")
                    h.imprecise.add(x)
                    if isinstance(k_, tuple):
                        h.heap[k_] = P(nr, Lin.sym(x))
                    else:
                        h.env[k_] = P(nr, Lin.sym(x))
                    sub[k_] = ("g", x, v[2], rid0)
                    gkeys.add(k_)
            for d in locs:
                if d in gkeys:
                    continue
                v = base.env.get(d)
                if v is None:
                    continue
                if v[0] == "i":
                    x = fresh("lv")
                    h.env[d] = I(Lin.sym(x))
                    h.imprecise.add(x)
                    sub[d] = ("i", x, v[1])
                elif v[0] == "p" and self_rel.get(d, True):
                    x = fresh("lo")
                    h.env[d] = P(v[1], Lin.sym(x))
                    h.imprecise.add(x)
                    sub[d] = ("p", x, v[2], v[1])
                elif v[0] == "p":
                    h.env[d] = UNK        # re-pointed inside the loop (realloc, new buffer): nothing is known
                elif v[0] == "n":
                    # a pointer that is NULL on entry and NULL again after every way round (a search result that ends the
                    # loop when it is found) stays NULL in the summary; checked like the other shapes, else unknown
                    if ("null", d) in disabled_now:
                        h.env[d] = UNK
                    else:
                        nullkeys.add(d)
                elif v[0] == "uninit":
                    h.env[d] = UNK
                else:
                    h.env[d] = v
            for key in list(base.heap):
                if key in gkeys:
                    continue
                if isinstance(key, tuple) and len(key) == 2 and key[1] in fields and not isinstance(key[0], tuple) and key[0] not in ("byte", "ctype", "global", "addrof"):
                    v = base.heap[key]
                    if v[0] == "i":
                        x = fresh("lf")
                        h.heap[key] = I(Lin.sym(x))
                        h.imprecise.add(x)
                        sub[key] = ("i", x, v[1])
                    elif v[0] == "p":
                        h.heap[key] = UNK
            # a modified local whose address has been taken (handed to a helper as &pos): the cell behind the address holds the
            # same loop-carried value as the variable
            for d in locs:
                rid_ = h.heap.get(("addrof_of", d))
                if rid_ is not None and d in h.env and ("lval", rid_) in h.heap:
                    h.heap[("lval", rid_)] = h.env[d]
            # memory may be written in the loop: cells read before it are no longer known
            self.forget_cells(h)
            bhkeys.clear()
            for c_, s_ in byteholders.items():
                if ("bh", c_) in disabled_now or not holds_byte(base, c_, s_):
                    continue
                sv_ = h.env.get(s_)
                if sv_ is None or sv_[0] != "p" or h.regions.get(sv_[1]) is None or sv_[1] in written:
                    continue
                h.env[c_] = self.mem_read(h, sv_, 1, {"tw": 8})
                sub.pop(c_, None)
                bhkeys.add(c_)
            return h, sub

        # buffers the loop writes: their string length / terminator position are loop-carried too
        written = set()
        rs_ = self.record
        # the first way round the loop is executed from the exact entry state, obligations recorded (these are real
        # states, not the summary), and so is the second evaluation of the condition: a defect that needs one
        # completed iteration (a buffer not grown for the next read) is decided here and not lost in the summary
        self.record = rs_ and not self.peeling
        was_peeling = self.peeling
        self.peeling = True
        try:
            probe = pre.copy()
            base_ver = {rid: r.wver for rid, r in probe.regions.items()}
            for e_ in self.one_iteration(n, probe):
                for rid, r in e_.regions.items():
                    if rid in base_ver and r.wver != base_ver[rid]:
                        written.add(rid)
                if self.record and n.get("cond") is not None:
                    self.branch(n["cond"], e_.copy())
        except TooManyStates:
            written = set(pre.regions)
        finally:
            self.record = rs_
            self.peeling = was_peeling
        disabled_groups = set()
        while True:
            groups = find_groups(pre, disabled_groups)
            disabled_now.clear()
            disabled_now.update(disabled_groups)
            h, sub = havoc(pre, groups)
            shape_broken = set()
            for rid in sorted(written):
                r0 = pre.regions.get(rid)
                rh = h.regions.get(rid)
                if r0 is None or rh is None:
                    continue
                same = r0.slen is not None and r0.nul is not None and r0.slen == r0.nul
                if r0.slen is not None:
                    x = fresh("rs")
                    h.imprecise.add(x)
                    h.cons.append(Lin.sym(x))
                    rh.slen = Lin.sym(x)
                    sub[("rslen", rid)] = ("i", x, r0.slen)
                    if same:
                        rh.nul = Lin.sym(x)
                if r0.nul is not None and not same:
                    x = fresh("rn")
                    h.imprecise.add(x)
                    h.cons.append(Lin.sym(x))
                    rh.nul = Lin.sym(x)
                    sub[("rnul", rid)] = ("i", x, r0.nul)
                if r0.slen is None and r0.nul is None:
                    pass
                if r0.slen is not None and r0.cap is not None:
                    pass
            # candidate invariants over the havocked symbols
            cands = []
            for key, info in sub.items():
                x = Lin.sym(info[1])
                e0 = info[2]
                cands.append(("ge0", x - e0))        # only grows
                cands.append(("le0", e0 - x))        # only shrinks
                if info[0] == "p":
                    r = pre.regions.get(info[3])
                    cands.append(("off>=0", x))
                    if r is not None:
                        if r.slen is not None:
                            cands.append(("off<=slen", r.slen - x))
                        if r.nul is not None:
                            cands.append(("off<=nul", r.nul - x))
                        if r.cap is not None:
                            cands.append(("off<=cap", r.cap - x))
                elif info[0] == "g":
                    cands.append(("off>=0", x))
                    for gk, nm in (("gcap", "cap"), ("gslen", "slen"), ("gnul", "nul")):
                        gi = sub.get((gk, info[3]))
                        if gi is not None:
                            cands.append(("off<=" + nm, Lin.sym(gi[1]) - x))
                else:
                    cands.append(("nonneg", x)) if entails(pre.cons, e0) else None
                    if isinstance(key, tuple) and key and key[0] in ("rslen", "rnul"):
                        rg = pre.regions.get(key[1])
                        if rg is not None and rg.cap is not None:
                            cands.append(("len<cap", rg.cap - x - 1))
            # integer variables used as indices into a buffer: bounded by its string length / terminator / capacity
            for part in ("cond", "body", "inc"):
                if n.get(part) is None:
                    continue
                for x in walk(n[part]):
                    if x.get("k") != "index":
                        continue
                    ix = X.strip(x["ch"][1])
                    off_c = 0
                    if ix.get("k") == "bin" and ix.get("op") in ("+", "-") and X.const_val(ix["ch"][1]) is not None:
                        ix = X.strip(ix["ch"][0])
                    if ix.get("k") == "un" and ix.get("op") in ("++", "--"):
                        ix = X.strip(ix["ch"][0])
                    if ix.get("k") != "ref" or ix.get("d") not in sub or sub[ix["d"]][0] != "i":
                        continue
                    bx = X.strip(x["ch"][0])
                    if bx.get("k") != "ref" or bx.get("d") in sub:
                        continue
                    bv = pre.env.get(bx["d"])
                    if bv is None or bv[0] != "p":
                        continue
                    r = pre.regions.get(bv[1])
                    if r is None:
                        continue
                    es = (x.get("tw") or 8) // 8 if not x.get("tp") else 8
                    xv = Lin.sym(sub[ix["d"]][1]).scale(es) + bv[2]
                    cands.append(("idx>=0", xv))
                    if r.slen is not None:
                        cands.append(("idx<=slen", r.slen - xv))
                    if r.nul is not None:
                        cands.append(("idx<=nul", r.nul - xv))
                    if r.cap is not None:
                        cands.append(("idx<=cap", r.cap - xv))
                        cands.append(("idx<cap", r.cap - xv - es))
            # de-duplicate
            seen_c = set()
            cands = [c for c in cands if c is not None and not (c[1] in seen_c or seen_c.add(c[1]))]
            # lock-step pairs
            keys = list(sub.items())
            for i in range(len(keys)):
                for j in range(i + 1, len(keys)):
                    a, b = keys[i][1], keys[j][1]
                    d0 = a[2] - b[2]
                    xa, xb = Lin.sym(a[1]), Lin.sym(b[1])
                    cands.append(("lock+", (xa - xb) - d0))
                    cands.append(("lock-", d0 - (xa - xb)))
                    s0 = a[2] + b[2]
                    cands.append(("sum+", (xa + xb) - s0))
                    cands.append(("sum-", s0 - (xa + xb)))
            # guard-derived candidates: a < b  ->  a <= b as invariant (evaluated over the havocked symbols)
            if True:
                rs0 = self.record
                self.record = False
                try:
                    conds = list(self.conjuncts(n["cond"])) if n.get("cond") is not None else []
                    # comparisons guarding statements inside the body bound what those statements can reach as well
                    for part in ("body", "inc"):
                        if n.get(part) is not None:
                            for x in walk(n[part]):
                                if x.get("k") in ("if", "while", "for") and x.get("cond") is not None:
                                    conds.extend(self.conjuncts(x["cond"]))
                                elif x.get("k") == "cond":
                                    conds.extend(self.conjuncts(x["ch"][0]))
                    for cj in conds[:12]:
                        c0 = X.strip(cj)
                        neg_ = False
                        while c0 is not None and c0.get("k") == "un" and c0.get("op") == "!":
                            neg_ = not neg_                      # !(a >= b) is a < b
                            c0 = X.strip(c0["ch"][0])
                        if c0 is not None and c0.get("k") == "bin" and c0.get("op") in ("<", "<=", ">", ">="):
                            op0 = {"<": ">=", "<=": ">", ">": "<=", ">=": "<"}[c0["op"]] if neg_ else c0["op"]
                            hv = h.copy()
                            la = self.ev(c0["ch"][0], hv)
                            if len(la) != 1:
                                continue
                            lb = self.ev(c0["ch"][1], la[0][0])
                            if len(lb) != 1:
                                continue
                            a, b = la[0][1], lb[0][1]
                            if a[0] == "p" and b[0] == "p" and a[1] == b[1]:
                                a, b = I(a[2]), I(b[2])
                            if a[0] == "i" and b[0] == "i":
                                d = (b[1] - a[1]) if op0 in ("<", "<=") else (a[1] - b[1])
                                cands.append(("guard", d))
                                cands.append(("guard+1", d + 1))
                                # a test inside the body may guard the step the other way round (if (!(p > q)) break; p--;): the
                                # opposite order, exact or off by one, is a candidate as well
                                cands.append(("guard-", -d))
                                cands.append(("guard-+1", (-d) + 1))
                except TooManyStates:
                    pass
                finally:
                    self.record = rs0
            cands = [c for c in cands if c is not None]

            def value_of(sx, key, info):
                if isinstance(key, tuple) and key and key[0] in ("rslen", "rnul"):
                    rg = sx.regions.get(key[1])
                    if rg is None:
                        return None
                    return rg.slen if key[0] == "rslen" else rg.nul
                if isinstance(key, tuple) and key and key[0] in ("gcap", "gslen", "gnul"):
                    rg = group_region(sx, groups[key[1]])
                    if rg is None:
                        return None
                    return {"gcap": rg.cap, "gslen": rg.slen, "gnul": rg.nul}[key[0]]
                v = sx.env.get(key) if not isinstance(key, tuple) else sx.heap.get(key)
                if v is None:
                    return None
                if info[0] == "g":
                    rg = group_region(sx, groups[info[3]])
                    return v[2] if (rg is not None and v[0] == "p") else None
                if info[0] == "i" and v[0] == "i":
                    return v[1]
                if info[0] == "p" and v[0] == "p" and v[1] == info[3]:
                    return v[2]
                return None

            record_save = self.record
            self.record = False
            # candidates must hold on entry (x = e0); filtering first keeps the conjunction satisfiable, so the inductive
            # step below is never vacuous
            m0 = {info[1]: info[2] for info in sub.values()}
            keep = [c for c in cands if entails(pre.cons, c[1].subst(m0))]
            try:
                for _round in range(12):
                    hs = h.copy()
                    hs.cons = hs.cons + [c[1] for c in keep]
                    if not feasible(hs.cons):
                        keep = []
                        shape_broken |= set(groups) | {("null", d_) for d_ in nullkeys} | {("bh", c_) for c_ in bhkeys}
                        break
                    ends = self.one_iteration(n, hs)
                    for rid0, keys_ in groups.items():
                        if any(group_region(e, keys_) is None for e in ends):
                            shape_broken.add(rid0)
                    for d_ in nullkeys:
                        if any((e.env.get(d_) or ("u",))[0] != "n" for e in ends):
                            shape_broken.add(("null", d_))
                    for c_ in bhkeys:
                        if any(not holds_byte(e, c_, byteholders[c_]) for e in ends):
                            shape_broken.add(("bh", c_))
                    if shape_broken:
                        break
                    dropped = False
                    nk = []
                    for c in keep:
                        ok = True
                        for e in ends:
                            m = {}
                            bad = False
                            for key, info in sub.items():
                                nv = value_of(e, key, info)
                                if nv is None:
                                    if info[1] in c[1].syms():
                                        bad = True
                                    continue
                                m[info[1]] = nv
                            if bad or not entails(e.cons, c[1].subst(m)):
                                ok = False
                                if DEBUG_LOOPS and n.get("l") == int(os.environ.get("LA_DEBUG_LINE", "0")):
                                    print("   drop %s %r: bad=%s path=%s" % (c[0], c[1], bad, e.path[-6:]))
                                break
                        if ok:
                            nk.append(c)
                        else:
                            dropped = True
                    keep = nk
                    if not dropped:
                        break
                else:
                    keep = []        # no fixpoint within the round budget: nothing is assumed
                    shape_broken |= set(groups) | {("null", d_) for d_ in nullkeys} | {("bh", c_) for c_ in bhkeys}
            except TooManyStates:
                if DEBUG_LOOPS:
                    print("LOOP line %s: TooManyStates during invariant inference (nstates=%d)" % (n.get("l"), self.nstates))
                keep = []
                shape_broken |= set(groups) | {("null", d_) for d_ in nullkeys} | {("bh", c_) for c_ in bhkeys}
            finally:
                self.record = record_save
            if not keep and (groups or nullkeys or bhkeys) and not shape_broken:
                shape_broken |= set(groups) | {("null", d_) for d_ in nullkeys} | {("bh", c_) for c_ in bhkeys}     # the shape was only established under assumptions that did not survive
            if shape_broken:
                disabled_groups |= shape_broken
                continue
            break
        if DEBUG_LOOPS:
            print("LOOP line %s depth-record=%s: kept %s of %d; ends=%s" % (n.get("l"), record_save, [c[0] + ":" + repr(c[1]) for c in keep][:40], len(cands), "?"))
        # invariants must also hold on entry: by construction x=e0 satisfies ge0/le0/lock/sum; check the others
        m0 = {info[1]: info[2] for info in sub.values()}
        keep = [c for c in keep if entails(pre.cons, c[1].subst(m0))]
        hs = h.copy()
        hs.cons = hs.cons + [c[1] for c in keep]
        # symbols pinned by invariants are no longer imprecise
        for key, info in sub.items():
            x = info[1]
            lo = any(c[0] in ("ge0",) for c in keep if x in c[1].syms())
        # final run with obligations recorded
        body_in, exit_states = self.branch(n["cond"], hs) if n.get("cond") is not None else ([hs], [])
        final_ends = []
        for s in body_in:
            o = self.exec(n["body"], s)
            out["ret"].extend(o["ret"])
            out["norm"].extend(o["brk"])
            for s2 in o["norm"] + o["cont"]:
                if n.get("inc") is not None:
                    for s3, _ in self.ev(n["inc"], s2):
                        final_ends.append(s3)
                else:
                    final_ends.append(s2)
        # which loop-carried quantities move strictly in one direction on every way round the loop?
        strict_up, strict_down = [], []
        for key, info in sub.items():
            x = Lin.sym(info[1])
            up = down = bool(final_ends)
            for e in final_ends:
                nv = value_of(e, key, info)
                if nv is None:
                    up = down = False
                    break
                if up and not entails(e.cons, nv - x - 1):
                    up = False
                if down and not entails(e.cons, x - nv - 1):
                    down = False
                if not up and not down:
                    break
            if up:
                strict_up.append(info)
            if down:
                strict_down.append(info)
            if DEBUG_LOOPS and not up and not down and self.check_progress:
                for e in final_ends:
                    nv = value_of(e, key, info)
                    print("  PROGRESS line %s key %r: end value %r (x=%s) path=%s" % (n.get("l"), key, nv, info[1], e.path[-4:]))
        # exits through the havocked state stand for "after at least one iteration" (zero iterations are the precise
        # f0 exits): strictly monotone quantities have moved by at least one step
        for e in exit_states:
            for info in strict_up:
                if ("ge0", Lin.sym(info[1]) - info[2]) in keep or any(c[0] == "ge0" and c[1] == Lin.sym(info[1]) - info[2] for c in keep):
                    e.cons.append(Lin.sym(info[1]) - info[2] - 1)
            for info in strict_down:
                if any(c[0] == "le0" and c[1] == info[2] - Lin.sym(info[1]) for c in keep):
                    e.cons.append(info[2] - Lin.sym(info[1]) - 1)
        if self.check_progress and self.record and sub:
            witness = (strict_up or strict_down or [None])[0]
            if not final_ends:
                witness = "no way round"
            key_ = (self.cur_fn.name, "progress", n["i"])
            if key_ not in self.seen_obl:
                o_ = Obligation("progress", n, self.cur_fn, witness is not None,
                                "no loop-carried variable provably advances on every way round this loop (it may not terminate)",
                                undecided=witness is None)
                self.seen_obl[key_] = o_
                self.obls.append(o_)
            elif witness is None:
                self.seen_obl[key_].ok = False
                self.seen_obl[key_].undecided = True
        # zero-iteration exit straight from the pre-state keeps full precision
        out["norm"].extend(f0)
        out["norm"].extend(exit_states)
        return out

    def conjuncts(self, c):
        c0 = X.strip(c)
        if c0.get("k") == "bin" and c0.get("op") == "&&":
            return self.conjuncts(c0["ch"][0]) + self.conjuncts(c0["ch"][1])
        return [c]

    def one_iteration(self, n, hs):
        ends = []
        body_in, _ = self.branch(n["cond"], hs) if n.get("cond") is not None else ([hs], [])
        for s in body_in:
            o = self.exec(n["body"], s)
            for s2 in o["norm"] + o["cont"]:
                if n.get("inc") is not None:
                    for s3, _ in self.ev(n["inc"], s2):
                        ends.append(s3)
                else:
                    ends.append(s2)
        return ends

    # ------------------------------------------------------------------ driver
    def run_function(self, fn, entry_states):
        """Execute fn from each entry state; returns the list of return states."""
        self.cur_fn = fn
        self.nstates = 0
        rets = []
        for st in entry_states:
            self.nstates = 0
            if self.time_budget is not None and self.deadline is None:
                self.deadline = time.process_time() + self.time_budget
            try:
                o = self.exec(fn.body, st)
            except TooManyStates:
                self.notes.append("%s: state budget exceeded; exploration of this entry state is partial" % fn.name)
                continue
            rets.extend(o["ret"])
            for s in o["norm"]:
                s.ret = ("void",)
                rets.append(s)
        return rets
