"""STEPEQ — sibling agreement of two character scanners by finite abstract evaluation of their per-character step.

Both spiftool_split and the tok class scan their input with the same shape: an inner loop over the characters of one
token whose body looks at the current character, the next one and the quote state, and then copies / skips / toggles.
What the step does depends on those three only through comparisons (is it a quote, the escape, a delimiter, the open
quote, NUL), so the step is a function over a finite domain:

    current in {DQ, SQ, ESC, DELIM, OTHER}   next in {NUL, DQ, SQ, ESC, DELIM, OTHER}   quote in {none, DQ, SQ}

The body of each scanner is evaluated abstractly (an interpreter over the statement tree whose values are character
classes, cursor-relative positions and booleans) for each of the 90 configurations and yields
(characters emitted, cursor advance, new quote state, loop continues?).  The two scanners must yield the same result for
every configuration.  Anything the evaluator does not understand (an unknown call, a read two characters ahead, a test
of something else) makes that configuration undecided - never a report.
"""
from . import expr as X
from .facts import kids

CLASSES = ("DQ", "SQ", "ESC", "DELIM", "OTHER")
LITERAL = {34: "DQ", 39: "SQ", 92: "ESC", 32: "DELIM", 9: "DELIM", 10: "DELIM", 0: "NUL"}
EMITTERS = {"spif_str_append_char": 1, "spif_ustr_append_char": 1}


class Undecided(Exception):
    pass


class StepEnd(Exception):
    """`continue`: the rest of the body is skipped"""


class SwitchBreak(Exception):
    pass


class NeedChoice(Exception):
    pass


class TokenEnd(Exception):
    """`break` out of the character loop: the token ends at this character"""


class Returned(Exception):
    def __init__(self, value):
        self.value = value


def mac_top(n, name):
    m = n.get("m") or []
    return bool(m) and m[-1] == "b:" + name


def find_arg(n, name):
    """first sub-expression (breadth first) that is the argument of macro `name` inside the expansion rooted at n"""
    st = [n]
    while st:
        x = st.pop(0)
        if ("a:" + name) in (x.get("m") or []):
            return x
        st.extend(kids(x))
    return None


class Step(object):
    def __init__(self, fn, cursor, quote, field_consts):
        self.fn = fn
        self.cursor = cursor
        self.quote = quote
        self.consts = field_consts
        self.env = {}
        self.emits = []
        self.cur = self.nxt = None
        self.depth = 0
        self.in_switch = 0
        self.oracle, self.oracle_pos = [], 0
        self.resolving = set()
        self.fields = {}          # (struct local decl, field name) -> value: scanner state kept in a struct, shared with helpers

    def field_key(self, n):
        """(struct local decl, field) if n is S.f for a struct local S, or P->f for a pointer value that is the address of one"""
        n = X.strip(n)
        if n is None or n.get("k") != "member":
            return None
        b = X.strip(n["ch"][0])
        if b is None:
            return None
        if not n.get("arrow"):
            if b.get("k") == "ref" and b.get("rk") == "local":
                return (b["d"], n.get("n"))
            return None
        if b.get("k") == "ref" and b.get("d") in self.env and self.env[b["d"]][0] == "sref":
            return (self.env[b["d"]][1], n.get("n"))
        return None

    def state_get(self, key):
        return self.fields.get(key) if isinstance(key, tuple) else self.env.get(key)

    def state_set(self, key, v):
        if isinstance(key, tuple):
            self.fields[key] = v
        else:
            self.env[key] = v

    # ---- values
    def truth(self, v):
        if v[0] == "ch":
            return v[1] != "NUL"
        if v[0] == "int":
            return v[1] != 0
        if v[0] == "bool":
            return v[1]
        if v[0] in ("ptr", "dst"):
            return True
        if v[0] == "unk":
            # a test of something the step does not depend on (is a delimiter set given?): both answers are explored by run(),
            # and must lead to the same outcome
            if self.oracle_pos < len(self.oracle):
                self.oracle_pos += 1
                return self.oracle[self.oracle_pos - 1]
            raise NeedChoice()
        raise Undecided("truth of %r" % (v,))

    def at(self, k):
        if k == 0:
            return ("ch", self.cur)
        if k == 1:
            return ("ch", self.nxt)
        raise Undecided("read %d characters ahead" % k)

    def ev(self, n):
        while n is not None and n.get("k") in ("paren", "icast", "cast") and "b:isspace" not in (n.get("m") or []):
            n = n["ch"][0]
        if "b:isspace" in (n.get("m") or []):
            a = find_arg(n, "isspace")
            if a is None:
                raise Undecided("isspace argument")
            v = self.ev(a)
            if v[0] != "ch":
                raise Undecided("isspace of %r" % (v,))
            return ("bool", v[1] == "DELIM")
        k = n.get("k")
        if k in ("int", "char") or (k == "ref" and n.get("rk") == "enum"):
            cv = X.const_val(n)
            if cv is None:
                raise Undecided("literal")
            return ("int", cv)
        if k == "ref":
            d = n.get("d")
            if d in self.env:
                return self.env[d]
            if n.get("tp"):
                return ("unk",) if n.get("rk") in ("param", "local") else ("dst",)
            if n.get("rk") == "local" and d not in self.resolving:
                # a local set once before the loop (dquote = self->dquote): its defining expression
                from .facts import walk as _walk
                defs = []
                for y in _walk(self.fn.body):
                    if y.get("k") == "assign" and X.strip(y["ch"][0]).get("d") == d:
                        defs.append(y["ch"][1] if y.get("op") == "=" else None)
                    elif y.get("k") == "decl":
                        defs += [dc["init"] for dc in y.get("decls", ()) if dc["d"] == d and dc.get("init") is not None]
                    elif y.get("k") == "un" and y.get("op") in ("++", "--") and X.strip(y["ch"][0]).get("d") == d:
                        defs.append(None)
                if len(defs) == 1 and defs[0] is not None:
                    self.resolving.add(d)
                    try:
                        v = self.ev(defs[0])
                    finally:
                        self.resolving.discard(d)
                    if v[0] == "int" and (n.get("tw") or 32) == 8:
                        v = ("ch", LITERAL.get(v[1], "OTHER"))
                    return v
            raise Undecided("value of %s" % n.get("n"))
        if k == "member":
            fk = self.field_key(n)
            if fk is not None and fk in self.fields:
                return self.fields[fk]
            nm = n.get("n")
            if (n.get("rec"), nm) in self.consts:
                return ("ch", LITERAL.get(self.consts[n.get("rec"), nm], "OTHER"))
            if nm in self.consts:
                return ("ch", LITERAL.get(self.consts[nm], "OTHER"))
            if n.get("tp"):
                return ("unk",)
            raise Undecided("field %s" % nm)
        if k == "un":
            op = n.get("op")
            if op == "!":
                return ("bool", not self.truth(self.ev(n["ch"][0])))
            if op == "*":
                p = self.ev(n["ch"][0])
                if p[0] == "ptr":
                    return self.at(p[1])
                raise Undecided("read through %r" % (p,))
            if op == "&":
                t = X.strip(n["ch"][0])
                if t is not None and t.get("k") == "ref" and t.get("rk") == "local" and not t.get("tp") and not t.get("tw"):
                    return ("sref", t["d"])          # the address of a struct local (scanner state handed to a helper)
                raise Undecided("address of %s" % X.render(t)[:20])
            if op in ("++", "--"):
                t = X.strip(n["ch"][0])
                fk = self.field_key(t) if t is not None and t.get("k") == "member" else None
                if fk is not None and fk in self.fields and self.fields[fk][0] == "ptr":
                    old = self.fields[fk]
                    new = ("ptr", old[1] + (1 if op == "++" else -1))
                    self.fields[fk] = new
                    return old if n.get("post") else new
                if fk is not None and t.get("tp"):
                    return ("dst",)
                if t.get("k") == "ref" and t.get("d") in self.env and self.env[t["d"]][0] == "ptr":
                    old = self.env[t["d"]]
                    new = ("ptr", old[1] + (1 if op == "++" else -1))
                    self.env[t["d"]] = new
                    return old if n.get("post") else new
                if t.get("k") == "ref" and t.get("tp"):
                    return ("dst",)
                if t.get("k") == "ref" and t.get("rk") in ("local", "param") and t.get("d") not in (self.cursor, self.quote):
                    return ("unk",)           # an output index / counter the step does not depend on
                raise Undecided("++ of %s" % X.render(t)[:20])
            if op == "-" and len(n["ch"]) == 1:
                v = self.ev(n["ch"][0])
                if v[0] == "int":
                    return ("int", -v[1])
            raise Undecided("unary %s" % op)
        if k == "index":
            p = self.ev(n["ch"][0])
            i = self.ev(n["ch"][1])
            if p[0] == "ptr" and i[0] == "int":
                return self.at(p[1] + i[1])
            if i[0] == "ptr" and p[0] in ("unk", "dst"):
                return self.at(i[1])          # text[pos + k]: the cursor is an index into the text
            raise Undecided("index")
        if k == "bin":
            op = n.get("op")
            if op == "&&":
                l = self.ev(n["ch"][0])
                if not self.truth(l):
                    return ("bool", False)
                return ("bool", self.truth(self.ev(n["ch"][1])))
            if op == "||":
                l = self.ev(n["ch"][0])
                if self.truth(l):
                    return ("bool", True)
                return ("bool", self.truth(self.ev(n["ch"][1])))
            if op == ",":
                self.ev(n["ch"][0])
                return self.ev(n["ch"][1])
            a, b = self.ev(n["ch"][0]), self.ev(n["ch"][1])
            if op in ("+", "-") and a[0] == "ptr" and b[0] == "int":
                return ("ptr", a[1] + (b[1] if op == "+" else -b[1]))
            if op in ("==", "!="):
                if a[0] == "ch" and b[0] == "ch":
                    if a[1] == "OTHER" and b[1] == "OTHER":
                        raise Undecided("two ordinary characters compared")
                    r = a[1] == b[1]
                elif a[0] == "ch" and b[0] == "int":
                    r = (a[1] == "NUL") == (b[1] == 0) if b[1] == 0 else (LITERAL.get(b[1], "OTHER") == a[1])
                elif a[0] == "int" and b[0] == "ch":
                    r = (b[1] == "NUL") == (a[1] == 0) if a[1] == 0 else (LITERAL.get(a[1], "OTHER") == b[1])
                elif a[0] == "int" and b[0] == "int":
                    r = a[1] == b[1]
                elif a[0] == "bool" and b[0] == "int":
                    r = a[1] == (b[1] != 0)
                elif a[0] in ("ptr", "dst") and b[0] == "int" and b[1] == 0:
                    r = False
                else:
                    raise Undecided("comparison of %r and %r" % (a, b))
                return ("bool", r if op == "==" else not r)
            raise Undecided("operator %s" % op)
        if k == "cond":
            c = self.ev(n["ch"][0])
            return self.ev(n["ch"][1] if self.truth(c) else n["ch"][2])
        if k == "assign":
            t = X.strip(n["ch"][0])
            op = n.get("op")
            fk = self.field_key(t) if t is not None and t.get("k") == "member" else None
            if fk is not None and (fk in self.fields or not t.get("tp")):
                if op == "=":
                    v = self.ev(n["ch"][1])
                    self.fields[fk] = v
                    return v
                if op in ("+=", "-=") and fk in self.fields and self.fields[fk][0] == "ptr":
                    v = self.ev(n["ch"][1])
                    if v[0] != "int":
                        raise Undecided("cursor moved by a non-constant")
                    self.fields[fk] = ("ptr", self.fields[fk][1] + (v[1] if op == "+=" else -v[1]))
                    return self.fields[fk]
            if t.get("k") == "ref" and not t.get("tp") and op == "=":
                v = self.ev(n["ch"][1])
                self.env[t["d"]] = v
                return v
            if t.get("k") == "ref" and t.get("d") in self.env and self.env[t["d"]][0] == "ptr" and op in ("+=", "-="):
                v = self.ev(n["ch"][1])
                if v[0] != "int":
                    raise Undecided("cursor moved by a non-constant")
                self.env[t["d"]] = ("ptr", self.env[t["d"]][1] + (v[1] if op == "+=" else -v[1]))
                return self.env[t["d"]]
            if t.get("k") in ("un", "index") and op == "=":
                # a store through the token pointer: one character emitted
                if t.get("k") == "un" and t.get("op") == "*":
                    d = self.ev(t["ch"][0])
                else:
                    d = self.ev(t["ch"][0])
                    self.ev(t["ch"][1])
                if d[0] not in ("dst", "unk"):
                    raise Undecided("store through the input cursor")
                v = self.ev(n["ch"][1])
                if v[0] == "int":
                    v = ("ch", LITERAL.get(v[1], "OTHER"))
                if v[0] != "ch":
                    raise Undecided("emission of %r" % (v,))
                self.emits.append(v[1])
                return v
            raise Undecided("assignment to %s" % X.render(t)[:24])
        if k == "call":
            cn = X.callee_name(n)
            if cn in EMITTERS:
                v = self.ev(n["ch"][1 + EMITTERS[cn]])
                if v[0] != "ch":
                    raise Undecided("emission of %r" % (v,))
                self.emits.append(v[1])
                return ("int", 1)
            if cn in ("strchr", "index", "__builtin_strchr", "memchr") and len(n["ch"]) >= 3:
                v = self.ev(n["ch"][2])
                if v[0] != "ch" or v[1] == "NUL":
                    raise Undecided("delimiter test of %r" % (v,))
                return ("bool", v[1] == "DELIM")
            if cn in ("isspace",):
                v = self.ev(n["ch"][1])
                if v[0] != "ch":
                    raise Undecided("isspace")
                return ("bool", v[1] == "DELIM")
            g = self.fn.unit.functions.get(cn or "")
            if g is not None and g.body is not None and self.depth < 3 and len(g.params) == len(n["ch"]) - 1:
                # a unit-local predicate / classifier: evaluated on the argument values (no access to the caller's cursor)
                vals = [self.ev(a) for a in n["ch"][1:]]
                saved = (self.env, self.fn, self.depth)
                self.env = {p_["d"]: v_ for p_, v_ in zip(g.params, vals)}
                self.fn = g
                self.depth += 1
                try:
                    self.stmt(g.body)
                    res = ("int", 0)
                except Returned as r_:
                    res = r_.value
                except (StepEnd, SwitchBreak):
                    raise Undecided("control flow leaves helper %s" % cn)
                finally:
                    self.env, self.fn, self.depth = saved
                return res
            raise Undecided("call of %s" % cn)
        if k == "stmtexpr":
            blk = n["ch"][0]
            last = ("int", 0)
            for s_ in blk.get("ch", []):
                last = self.stmt(s_)
            return last if last is not None else ("int", 0)
        raise Undecided("expression kind %s" % k)

    # ---- statements
    def stmt(self, s):
        k = s.get("k")
        if k == "block":
            for c in s.get("ch", []):
                self.stmt(c)
            return None
        if k == "if":
            c = self.ev(s["cond"])
            if self.truth(c):
                self.stmt(s["then"])
            elif s.get("else") is not None:
                self.stmt(s["else"])
            return None
        if k == "decl":
            for d in s.get("decls", ()):
                if d.get("init") is not None:
                    self.env[d["d"]] = self.ev(d["init"])
            return None
        if k == "null":
            return None
        if k == "continue":
            if self.depth:
                raise Undecided("continue inside a helper")
            raise StepEnd()
        if k == "return":
            if not self.depth:
                raise Undecided("return inside the step")
            raise Returned(self.ev(s["val"]) if s.get("val") is not None else ("int", 0))
        if k == "break":
            if self.in_switch:
                raise SwitchBreak()
            if self.depth:
                raise Undecided("break inside a helper")
            raise TokenEnd()
        if k == "switch":
            return self.switch(s)
        if k in ("while", "for", "do", "goto"):
            raise Undecided("control statement %s in the step" % k)
        return self.ev(s)

    def switch(self, s):
        v = self.ev(s["cond"])
        body = s.get("body")
        if body is None or body.get("k") != "block":
            raise Undecided("switch body")
        seq = []
        for x in body.get("ch", []):
            while x is not None and x.get("k") in ("case", "default"):
                seq.append(("label", x))
                x = x.get("sub")
            if x is not None:
                seq.append(("stmt", x))
        start = None
        dflt = None
        for i, (t, x) in enumerate(seq):
            if t != "label":
                continue
            if x.get("k") == "default":
                dflt = i
                continue
            cv = X.const_val(x.get("val"))
            if cv is None:
                raise Undecided("non-constant case label")
            if v[0] == "ch":
                if cv not in LITERAL and v[1] == "OTHER":
                    raise Undecided("case label for an ordinary character")
                hit = LITERAL.get(cv) == v[1]
            elif v[0] == "int":
                hit = cv == v[1]
            else:
                raise Undecided("switch on %r" % (v,))
            if hit and start is None:
                start = i
        if start is None:
            start = dflt
        if start is None:
            return None
        self.in_switch += 1
        try:
            for t, x in seq[start:]:
                if t == "stmt":
                    self.stmt(x)
        except SwitchBreak:
            pass
        finally:
            self.in_switch -= 1
        return None

    def run(self, loop, cur, nxt, quote):
        """outcome of one configuration; tests of values the step does not depend on are explored both ways"""
        results = []
        work = [[]]
        while work:
            vec = work.pop()
            self.oracle, self.oracle_pos = vec, 0
            try:
                results.append(self._run_once(loop, cur, nxt, quote))
            except NeedChoice:
                if len(vec) >= 6:
                    raise Undecided("too many tests of unrelated values")
                work.append(vec + [True])
                work.append(vec + [False])
        if any(r != results[0] for r in results[1:]):
            raise Undecided("the outcome depends on a value the step should not depend on")
        return results[0]

    def _run_once(self, loop, cur, nxt, quote):
        self.cur, self.nxt = cur, nxt
        self.env = {}
        self.fields = {}
        self.state_set(self.cursor, ("ptr", 0))
        self.state_set(self.quote, ("ch", quote))
        self.emits = []
        self.depth = 0
        self.in_switch = 0
        if loop.get("cond") is not None:
            # evaluated for its verdict and for its assignments ((c = text[pos]) != 0)
            if not self.truth(self.ev(loop["cond"])):
                return "END"
        try:
            self.stmt(loop["body"])
        except StepEnd:
            pass
        except TokenEnd:
            return "END"
        if loop.get("inc") is not None:
            self.ev(loop["inc"])
        adv = self.state_get(self.cursor)
        q = self.state_get(self.quote)
        if adv is None or q is None:
            raise Undecided("cursor/quote after the step")
        if adv[0] != "ptr" or q[0] not in ("ch", "int"):
            raise Undecided("cursor/quote after the step")
        qv = q[1] if q[0] == "ch" else ("NUL" if q[1] == 0 else "OTHER")
        return (tuple(self.emits), adv[1], qv)

    def continues(self, loop, cur, quote):
        """does the loop condition let a token continue at character class cur (NUL included) with this quote state"""
        self.cur, self.nxt = cur, None
        self.env = {}
        self.fields = {}
        self.state_set(self.cursor, ("ptr", 0))
        self.state_set(self.quote, ("ch", quote))
        self.emits = []
        return self.truth(self.ev(loop["cond"]))


def find_token_loop(fn):
    """the inner loop whose condition tests the current character and the quote state, in fn or in a unit-local helper it hands
    the copying of one token to: returns (loop, cursor decl, quote decl, owning function)"""
    from .facts import walk
    from .listrules import unit_closure
    found = []
    for g in unit_closure(fn):
        if g.body is None:
            continue
        for lp in walk(g.body):
            if lp.get("k") not in ("for", "while"):
                continue
            cur_d = None
            quote_d = None
            # for (;;) { c = text[pos]; if (!c) break; ... }: the loop's own tests are the leading statements of its body
            for x in walk(lp["cond"] if lp.get("cond") is not None else (lp.get("body") or {})):
                if x.get("k") == "un" and x.get("op") == "*":
                    t = X.strip(x["ch"][0])
                    if t.get("k") == "ref" and t.get("rk") in ("local", "param") and cur_d is None:
                        cur_d = t["d"]
                    if t.get("k") == "member" and not t.get("arrow") and cur_d is None:
                        b_ = X.strip(t["ch"][0])
                        if b_ is not None and b_.get("k") == "ref" and b_.get("rk") == "local":
                            cur_d = (b_["d"], t["n"])        # the cursor is a field of a struct local (scanner state)
                if x.get("k") == "index" and cur_d is None:
                    t = X.strip(x["ch"][1])
                    if t.get("k") == "ref" and t.get("rk") in ("local", "param") and not t.get("tp"):
                        cur_d = t["d"]          # text[pos]: the index is the cursor
            if cur_d is None:
                continue
            # the quote state: a small local that the loop both resets to 0 and sets from the current character
            zeroed, set_ = set(), set()
            bodies = [lp["body"]]
            if isinstance(cur_d, tuple):
                # the state struct is handed to unit-local helpers by address: their bodies belong to the step
                for c_ in X.calls_in(lp["body"]):
                    h_ = g.unit.functions.get(X.callee_name(c_) or "")
                    if h_ is not None and h_.body is not None and any(
                            (X.strip(a_) or {}).get("k") == "un" and X.strip(a_).get("op") == "&" and (X.strip(X.strip(a_)["ch"][0]) or {}).get("d") == cur_d[0]
                            for a_ in c_["ch"][1:]):
                        bodies.append(h_.body)
            for body_ in bodies:
                for y in walk(body_):
                    if y.get("k") == "assign" and y.get("op") == "=":
                        t = X.strip(y["ch"][0])
                        if t.get("k") == "ref" and t.get("rk") == "local" and not t.get("tp") and (t.get("tw") or 0) <= 32 and t.get("d") != cur_d:
                            if X.const_val(y["ch"][1]) == 0:
                                zeroed.add(t["d"])
                            else:
                                set_.add(t["d"])
                        if isinstance(cur_d, tuple) and t.get("k") == "member" and not t.get("tp") and (t.get("tw") or 0) <= 32 and t.get("n") != cur_d[1]:
                            key_ = (cur_d[0], t["n"])
                            if X.const_val(y["ch"][1]) == 0:
                                zeroed.add(key_)
                            else:
                                set_.add(key_)
            cand = sorted(zeroed & set_, key=str)
            if not cand:
                continue
            # an inner loop of the token loop would be found first by the walk only if it has these too; prefer the innermost
            quote_d = cand[0]
            inner = [z for z in walk(lp["body"]) if z.get("k") in ("for", "while") and z is not lp]
            if any(True for z in inner if any(y.get("k") == "assign" and X.strip(y["ch"][0]).get("d") == quote_d for y in walk(z.get("body") or {}))):
                continue        # the toggling happens in a nested loop: that one is the character loop
            found.append((lp, cur_d, quote_d, g))
    # the character loop is the innermost candidate (with the state in a struct the toggling sits in a helper, so an enclosing
    # per-token loop qualifies as well)
    for cand_ in found:
        if not any(o_ is not cand_ and o_[3] is cand_[3] and any(y is o_[0] for y in walk(cand_[0].get("body") or {})) for o_ in found):
            return cand_
    return None


def grammar_step(cur, nxt, quote):
    """the step the quoting grammar prescribes: quotes group and are removed (the other kind of quote is literal inside a quoted
    section), a backslash makes a following delimiter or the closing quote literal, everything else is copied"""
    if cur in ("DQ", "SQ"):
        if quote == "NUL":
            return ((), 1, cur)
        if quote == cur:
            return ((), 1, "NUL")
        return ((cur,), 1, quote)
    if cur == "ESC" and nxt != "NUL" and (nxt == "DELIM" or (quote != "NUL" and nxt == quote)):
        return ((nxt,), 2, quote)
    return ((cur,), 1, quote)


def grammar_continues(cur, quote):
    return cur != "NUL" and (quote != "NUL" or cur != "DELIM")
