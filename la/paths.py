"""Path enumeration over small acyclic CFGs (macro probe functions): every entry->exit path as a
list of events ('cond', node, truth) / ('call', name, node) / ('ret', node)."""
from . import expr as X


def subst_params(node, mapping):
    """deep copy of an AST node with references to the parameters in `mapping` (decl id -> node) replaced"""
    if isinstance(node, list):
        return [subst_params(x, mapping) for x in node]
    if not isinstance(node, dict):
        return node
    if node.get("k") == "ref" and node.get("rk") == "param" and node.get("d") in mapping:
        return mapping[node["d"]]
    return {k: (subst_params(v, mapping) if (isinstance(v, (dict, list)) and k not in ("flagdef", "maskdef", "m") and not k.startswith("_")) else v) for k, v in node.items()}


def inlinable(g):
    """a helper whose paths can be spliced into its callers': it has a body and a CFG, and never writes or takes the address of
    one of its own parameters (so a parameter can be replaced by the argument expression)"""
    from .facts import walk
    if g is None or g.body is None or g.cfg is None:
        return False
    pds = {p["d"] for p in g.params}
    for x in walk(g.body):
        if x.get("k") == "assign" or (x.get("k") == "un" and x.get("op") in ("++", "--", "&")):
            t = X.strip(x["ch"][0])
            if t is not None and t.get("k") == "ref" and t.get("d") in pds:
                return False
    return True


def dnf(cond, truth, depth=0):
    """[[(atomic condition node, truth)]]: the ways `cond` can evaluate to `truth`, flag locals (flagdef) replaced by the
    condition they stand for and logical operators split, so that each alternative is a conjunction of atomic tests"""
    n = X.strip(cond)
    if n is None or depth > 12:
        return [[(cond, truth)]]
    k = n.get("k")
    if k == "ref" and n.get("flagdef") is not None:
        return dnf(n["flagdef"], truth, depth + 1)
    if k == "un" and n.get("op") == "!":
        return dnf(n["ch"][0], not truth, depth + 1)
    if k == "bin" and n.get("op") in ("&&", "||"):
        a, b = n["ch"]
        conj = (n["op"] == "&&") == truth        # both sides must have the value `truth`
        if conj:
            return [x + y for x in dnf(a, truth, depth + 1) for y in dnf(b, truth, depth + 1)]
        return dnf(a, truth, depth + 1) + [x + y for x in dnf(a, not truth, depth + 1) for y in dnf(b, truth, depth + 1)]
    if k == "cond":
        tv, fv = X.const_val(n["ch"][1]), X.const_val(n["ch"][2])
        if tv is not None and fv is not None and bool(tv) != bool(fv):
            return dnf(n["ch"][0], truth == bool(tv), depth + 1)
    if k == "bin" and n.get("op") in ("!=", "==") and X.const_val(n["ch"][1]) == 0:
        x = X.strip(n["ch"][0])
        if x is not None and (x.get("flagdef") is not None or (x.get("k") == "bin" and x.get("op") in ("&&", "||", "<", ">", "<=", ">=", "==", "!="))
                              or (x.get("k") == "un" and x.get("op") == "!") or x.get("k") == "cond"):
            return dnf(x, truth == (n["op"] == "!="), depth + 1)
    return [[(cond, truth)]]


def _consistent(path):
    """no two tests of the path contradict each other on the NULL-ness / constant value of a variable that was not assigned
    in between"""
    facts_ = {}
    for ev in path:
        if ev[0] in ("assign", "step"):
            l = X.apath(ev[2]["ch"][0])
            copied = None
            if ev[0] == "assign" and ev[2].get("op") == "=" and l is not None:
                r0 = X.apath(ev[2]["ch"][1])
                if r0 is not None and r0 in facts_ and facts_[r0][0] in ("nn", "null"):
                    copied = (facts_[r0][0], l)          # a plain copy carries the NULL-ness of its source
            if l is not None:
                def hit(k_):
                    if isinstance(k_, tuple) and k_[0] == "c":
                        return l.split("-")[0].split(".")[0].split("[")[0] in facts_[k_][1]
                    k_ = k_[1] if isinstance(k_, tuple) else k_
                    return k_ == l or k_.startswith(l + "-") or k_.startswith(l + ".") or k_.startswith(l + "[")
                for key in [k_ for k_ in facts_ if hit(k_)]:
                    del facts_[key]
            if copied is not None:
                facts_[l] = copied
            if l is None or not l.startswith("d") or "-" in l or "[" in l or "." in l:
                # a store to memory / a global: tests that read memory are no longer known
                for key in [k_ for k_, v_ in facts_.items() if isinstance(k_, tuple) and k_[0] == "c" and v_[2]]:
                    del facts_[key]
        elif ev[0] == "call":
            # a call can change any global / memory a test read (the message printers and the libc routines without an effect on
            # this library's globals excepted)
            import re as _re
            from .facts import LIBC_NO_GLOBAL_EFFECT
            if not (_re.match(r"libast_(fatal_error|print_warning|print_error|dprintf)$", ev[1] or "?") or ev[1] in LIBC_NO_GLOBAL_EFFECT):
                for key in [k_ for k_, v_ in facts_.items() if isinstance(k_, tuple) and k_[0] == "c" and v_[2]]:
                    del facts_[key]
        elif ev[0] == "cond" and not isinstance(ev[2], tuple):
            # the same side-effect-free test evaluated twice with nothing it reads written in between has the same outcome
            from .facts import walk
            c0 = X.strip(ev[1])
            if c0 is not None and not any(y.get("k") in ("assign", "call", "stmtexpr") or (y.get("k") == "un" and y.get("op") in ("++", "--"))
                                          for y in walk(c0)):
                key = ("c", X.render(c0))
                vars_ = {("d%d" % y["d"]) for y in walk(c0) if y.get("k") == "ref" and y.get("rk") in ("local", "param")}
                mem_ = any((y.get("k") == "ref" and y.get("rk") == "global") or y.get("k") in ("member", "index") or
                           (y.get("k") == "un" and y.get("op") == "*") for y in walk(c0))
                old = facts_.get(key)
                if old is not None and old[0] != ev[2]:
                    return False
                facts_[key] = (ev[2], vars_, mem_)
            for f in X.implied(ev[1], ev[2]):
                if f[0] in ("nn", "null"):
                    old = facts_.get(f[1])
                    if old is not None and old[0] in ("nn", "null") and old[0] != f[0]:
                        return False
                    facts_[f[1]] = f
                elif f[0] in ("true", "false"):
                    old = facts_.get(("t", f[1]))
                    if old is not None and old != f[0]:
                        return False
                    facts_[("t", f[1])] = f[0]
    return True


def expand_flag_tests(ps, limit=4096):
    """every path with its tests of flag locals / compound conditions replaced by the atomic tests they stand for (one path
    per alternative), contradictory alternatives dropped"""
    out = []
    for p in ps:
        alts = [[]]
        for ev in p:
            if ev[0] == "cond" and not isinstance(ev[2], tuple):
                d = dnf(ev[1], ev[2])
                if len(d) == 1 and len(d[0]) == 1 and d[0][0][0] is ev[1]:
                    alts = [a + [ev] for a in alts]
                else:
                    alts = [a + [("cond", c_, t_) for c_, t_ in alt] for a in alts for alt in d]
                    if len(alts) > limit:
                        alts = alts[:limit]
            else:
                alts = [a + [ev] for a in alts]
        out.extend(a for a in alts if _consistent(a))
    return out


def enumerate_paths(fn, limit=4096, noreturn=(), inline=None, expand=False, _depth=0, decls=False, steps=False):
    """inline: {name: Function} helpers whose own paths are spliced in at their call sites (parameters replaced by the
    argument expressions; the helper's return shows as ('hret', return node, call node));  expand: see expand_flag_tests"""
    ps = _enumerate_paths(fn, limit, noreturn, decls=decls, steps=steps)
    if inline and _depth < 3:
        res = []
        for p in ps:
            alts = [[]]
            for ev in p:
                g = inline.get(ev[1]) if ev[0] == "call" else None
                if g is not None and g is not fn and inlinable(g):
                    args = ev[2]["ch"][1:]
                    mapping = {pp["d"]: args[i] for i, pp in enumerate(g.params) if i < len(args)}
                    gps = enumerate_paths(g, limit, noreturn, inline={k: v for k, v in inline.items() if k != g.name}, _depth=_depth + 1, decls=decls, steps=steps)
                    new = []
                    for gp in gps:
                        seq = []
                        ended = False
                        for gev in gp:
                            if gev[0] == "cond":
                                seq.append(("cond", subst_params(gev[1], mapping), gev[2]))
                            elif gev[0] == "call":
                                seq.append(("call", gev[1], subst_params(gev[2], mapping)))
                            elif gev[0] == "assign":
                                seq.append(("assign", gev[1], subst_params(gev[2], mapping)))
                            elif gev[0] == "step":
                                seq.append(("step", gev[1], subst_params(gev[2], mapping)))
                            elif gev[0] == "ret":
                                seq.append(("hret", subst_params(gev[1], mapping), ev[2]))
                            elif gev[0] == "noreturn":
                                seq.append(gev)
                                ended = True
                            else:
                                seq.append(gev)
                        new.append((seq, ended))
                    nxt = []
                    for a in alts:
                        if a and a[-1] == ("noreturn",):
                            nxt.append(a)
                            continue
                        for seq, ended in new:
                            nxt.append(a + [("call", ev[1], ev[2])] + seq)
                    alts = nxt[:limit]
                else:
                    alts = [a if (a and a[-1] == ("noreturn",)) else a + [ev] for a in alts]
            res.extend(alts)
        # the value a spliced helper returned stands where the caller used the call's result (temp = helper(..); return helper(..))
        ps = []
        for a in res:
            hv = {}
            b = []
            for ev in a:
                if ev[0] == "hret":
                    if ev[1].get("val") is not None:
                        hv[id(ev[2])] = ev[1]["val"]
                    b.append(ev)
                elif ev[0] == "assign" and ev[2].get("op") == "=" and id(X.strip(ev[2]["ch"][1])) in hv:
                    n2 = dict(ev[2])
                    n2["ch"] = [ev[2]["ch"][0], hv[id(X.strip(ev[2]["ch"][1]))]]
                    b.append(("assign", ev[1], n2))
                elif ev[0] == "ret" and ev[1].get("val") is not None and id(X.strip(ev[1]["val"])) in hv:
                    n2 = dict(ev[1])
                    n2["val"] = hv[id(X.strip(ev[1]["val"]))]
                    b.append(("ret", n2))
                else:
                    b.append(ev)
            ps.append(b)
    if expand:
        ps = expand_flag_tests(ps, limit)
    return ps


def _enumerate_paths(fn, limit=4096, noreturn=(), decls=False, steps=False):
    cfg = fn.cfg
    nodes = fn.nodes
    out = []

    def block_events(b):
        ev = []
        for e in cfg.blocks[b].el:
            n = nodes.get(e)
            if n is None:
                continue
            if n.get("k") == "call":
                ev.append(("call", X.callee_name(n) or "?", n))
            elif n.get("k") == "assign":
                ev.append(("assign", X.render(n["ch"][0]), n))
            elif n.get("k") == "return":
                ev.append(("ret", n))
            elif steps and n.get("k") == "un" and n.get("op") in ("++", "--"):
                ev.append(("step", n["op"], n))           # x++ / x-- as an event of its own (only on request)
            elif decls and n.get("k") == "decl":
                # a declaration with an initialiser is the local's first assignment
                for dc in n.get("decls", ()):
                    if dc.get("init") is not None and dc["init"].get("k") != "initlist":
                        ref = {"k": "ref", "rk": "local", "d": dc["d"], "n": dc.get("n"), "i": n["i"], "t": dc.get("t"), "tp": dc.get("tp"), "tw": dc.get("tw"), "ts": dc.get("ts")}
                        ev.append(("assign", dc.get("n") or "?", {"k": "assign", "op": "=", "i": n["i"], "ch": [ref, dc["init"]], "m": n.get("m", [])}))
        return ev

    from .facts import walk
    taken = set()
    for x in walk(fn.body):
        if x.get("k") == "un" and x.get("op") == "&":
            t = X.strip(x["ch"][0])
            if t is not None and t.get("k") == "ref":
                taken.add(t.get("d"))
        elif x.get("k") == "un" and x.get("op") in ("++", "--"):
            t = X.strip(x["ch"][0])
            if t is not None and t.get("k") == "ref":
                taken.add(t.get("d"))       # not tracked as an event: do not trust constants of such locals

    def rec(b, path, seen):
        if len(out) >= limit:
            return
        if b == cfg.exit:
            out.append(list(path))
            return
        ev = block_events(b)
        path.extend(ev)
        stop = any(e[0] == "call" and e[1] in noreturn for e in ev)
        if stop:
            out.append(list(path) + [("noreturn",)])
        else:
            edges = cfg.edges(b)
            # constants held by locals at this point of the path (a mode chosen on an earlier branch: what = RESIZE_IN_PLACE)
            known = {}
            truth_of = {}
            for e_ in path:
                if e_[0] == "cond" and not isinstance(e_[2], tuple):
                    c0_ = X.strip(e_[1])
                    if c0_ is not None:
                        truth_of[c0_["i"]] = e_[2]
                if e_[0] == "assign":
                    l_ = X.strip(e_[2]["ch"][0])
                    if l_ is not None and l_.get("k") == "ref" and l_.get("rk") == "local" and l_.get("d") not in taken:
                        cv_ = X.const_val(e_[2]["ch"][1]) if e_[2].get("op") == "=" else None
                        r_ = X.strip(e_[2]["ch"][1]) if e_[2].get("op") == "=" else None
                        if cv_ is None and r_ is not None and r_.get("k") == "cond":
                            # flag = (c ? K1 : K0): the arm this path took through the conditional expression
                            t0_ = X.strip(r_["ch"][0])
                            tv_, fv_ = X.const_val(r_["ch"][1]), X.const_val(r_["ch"][2])
                            if t0_ is not None and t0_["i"] in truth_of and tv_ is not None and fv_ is not None:
                                cv_ = tv_ if truth_of[t0_["i"]] else fv_
                        if cv_ is None:
                            known.pop(l_["d"], None)
                        else:
                            known[l_["d"]] = cv_
            for s, cond, truth in edges:
                if (b, s) in seen:
                    continue
                if cond is not None and not isinstance(truth, tuple):
                    cv = X.const_val(cond)
                    if cv is not None and bool(cv) != truth:
                        continue
                if cond is not None and known:
                    c_ = X.strip(cond)
                    neg_ = False
                    while c_ is not None and c_.get("k") == "un" and c_.get("op") == "!":
                        neg_ = not neg_
                        c_ = X.strip(c_["ch"][0])
                    val_ = None
                    if c_ is not None and c_.get("k") == "ref" and c_.get("d") in known:
                        val_ = known[c_["d"]]
                        if isinstance(truth, tuple):
                            if truth[0] == "case" and truth[1] is not None and truth[1] != val_:
                                continue
                            if truth[0] == "default" and len(truth) > 1 and val_ in truth[1]:
                                continue
                        elif (bool(val_) != neg_) != truth:
                            continue
                    elif c_ is not None and c_.get("k") == "bin" and c_.get("op") in ("==", "!=") and not isinstance(truth, tuple):
                        a_, b_ = X.strip(c_["ch"][0]), X.strip(c_["ch"][1])
                        for x_, y_ in ((a_, b_), (b_, a_)):
                            if x_ is not None and x_.get("k") == "ref" and x_.get("d") in known and X.const_val(y_) is not None:
                                res_ = (known[x_["d"]] == X.const_val(y_)) == (c_["op"] == "==")
                                val_ = res_ != neg_
                        if val_ is not None and val_ != truth:
                            continue
                item = None
                if cond is not None and X.const_val(cond) is None:
                    item = ("cond", cond, truth)
                    path.append(item)
                rec(s, path, seen | {(b, s)})
                if item is not None:
                    path.pop()
        if ev:
            del path[len(path) - len(ev):]

    rec(cfg.entry, [], frozenset())
    return out
