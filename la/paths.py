"""Path enumeration over small acyclic CFGs (macro probe functions): every entry->exit path as a
list of events ('cond', node, truth) / ('call', name, node) / ('ret', node)."""
from . import expr as X


def enumerate_paths(fn, limit=4096, noreturn=()):
    cfg = fn.cfg
    nodes = fn.nodes
    out = []

    def block_events(b):
        ev = []
        for e in cfg.blocks[b].el:
            n = nodes.get(e)
            if n is None:
                continue
            if n.get("k") == "call":
                ev.append(("call", X.callee_name(n) or "?", n))
            elif n.get("k") == "assign":
                ev.append(("assign", X.render(n["ch"][0]), n))
            elif n.get("k") == "return":
                ev.append(("ret", n))
        return ev

    def rec(b, path, seen):
        if len(out) >= limit:
            return
        if b == cfg.exit:
            out.append(list(path))
            return
        ev = block_events(b)
        path.extend(ev)
        stop = any(e[0] == "call" and e[1] in noreturn for e in ev)
        if stop:
            out.append(list(path) + [("noreturn",)])
        else:
            edges = cfg.edges(b)
            for s, cond, truth in edges:
                if (b, s) in seen:
                    continue
                if cond is not None and not isinstance(truth, tuple):
                    cv = X.const_val(cond)
                    if cv is not None and bool(cv) != truth:
                        continue
                item = None
                if cond is not None and X.const_val(cond) is None:
                    item = ("cond", cond, truth)
                    path.append(item)
                rec(s, path, seen | {(b, s)})
                if item is not None:
                    path.pop()
        if ev:
            del path[len(path) - len(ev):]

    rec(cfg.entry, [], frozenset())
    return out
