"""Path enumeration over small acyclic CFGs (macro probe functions): every entry->exit path as a
list of events ('cond', node, truth) / ('call', name, node) / ('ret', node)."""
from . import expr as X


def enumerate_paths(fn, limit=4096, noreturn=()):
    cfg = fn.cfg
    nodes = fn.nodes
    out = []

    def block_events(b):
        ev = []
        for e in cfg.blocks[b].el:
            n = nodes.get(e)
            if n is None:
                continue
            if n.get("k") == "call":
                ev.append(("call", X.callee_name(n) or "?", n))
            elif n.get("k") == "assign":
                ev.append(("assign", X.render(n["ch"][0]), n))
            elif n.get("k") == "return":
                ev.append(("ret", n))
        return ev

    from .facts import walk
    taken = set()
    for x in walk(fn.body):
        if x.get("k") == "un" and x.get("op") == "&":
            t = X.strip(x["ch"][0])
            if t is not None and t.get("k") == "ref":
                taken.add(t.get("d"))
        elif x.get("k") == "un" and x.get("op") in ("++", "--"):
            t = X.strip(x["ch"][0])
            if t is not None and t.get("k") == "ref":
                taken.add(t.get("d"))       # not tracked as an event: do not trust constants of such locals

    def rec(b, path, seen):
        if len(out) >= limit:
            return
        if b == cfg.exit:
            out.append(list(path))
            return
        ev = block_events(b)
        path.extend(ev)
        stop = any(e[0] == "call" and e[1] in noreturn for e in ev)
        if stop:
            out.append(list(path) + [("noreturn",)])
        else:
            edges = cfg.edges(b)
            # constants held by locals at this point of the path (a mode chosen on an earlier branch: what = RESIZE_IN_PLACE)
            known = {}
            truth_of = {}
            for e_ in path:
                if e_[0] == "cond" and not isinstance(e_[2], tuple):
                    c0_ = X.strip(e_[1])
                    if c0_ is not None:
                        truth_of[c0_["i"]] = e_[2]
                if e_[0] == "assign":
                    l_ = X.strip(e_[2]["ch"][0])
                    if l_ is not None and l_.get("k") == "ref" and l_.get("rk") == "local" and l_.get("d") not in taken:
                        cv_ = X.const_val(e_[2]["ch"][1]) if e_[2].get("op") == "=" else None
                        r_ = X.strip(e_[2]["ch"][1]) if e_[2].get("op") == "=" else None
                        if cv_ is None and r_ is not None and r_.get("k") == "cond":
                            # flag = (c ? K1 : K0): the arm this path took through the conditional expression
                            t0_ = X.strip(r_["ch"][0])
                            tv_, fv_ = X.const_val(r_["ch"][1]), X.const_val(r_["ch"][2])
                            if t0_ is not None and t0_["i"] in truth_of and tv_ is not None and fv_ is not None:
                                cv_ = tv_ if truth_of[t0_["i"]] else fv_
                        if cv_ is None:
                            known.pop(l_["d"], None)
                        else:
                            known[l_["d"]] = cv_
            for s, cond, truth in edges:
                if (b, s) in seen:
                    continue
                if cond is not None and not isinstance(truth, tuple):
                    cv = X.const_val(cond)
                    if cv is not None and bool(cv) != truth:
                        continue
                if cond is not None and known:
                    c_ = X.strip(cond)
                    neg_ = False
                    while c_ is not None and c_.get("k") == "un" and c_.get("op") == "!":
                        neg_ = not neg_
                        c_ = X.strip(c_["ch"][0])
                    val_ = None
                    if c_ is not None and c_.get("k") == "ref" and c_.get("d") in known:
                        val_ = known[c_["d"]]
                        if isinstance(truth, tuple):
                            if truth[0] == "case" and truth[1] is not None and truth[1] != val_:
                                continue
                            if truth[0] == "default" and len(truth) > 1 and val_ in truth[1]:
                                continue
                        elif (bool(val_) != neg_) != truth:
                            continue
                    elif c_ is not None and c_.get("k") == "bin" and c_.get("op") in ("==", "!=") and not isinstance(truth, tuple):
                        a_, b_ = X.strip(c_["ch"][0]), X.strip(c_["ch"][1])
                        for x_, y_ in ((a_, b_), (b_, a_)):
                            if x_ is not None and x_.get("k") == "ref" and x_.get("d") in known and X.const_val(y_) is not None:
                                res_ = (known[x_["d"]] == X.const_val(y_)) == (c_["op"] == "==")
                                val_ = res_ != neg_
                        if val_ is not None and val_ != truth:
                            continue
                item = None
                if cond is not None and X.const_val(cond) is None:
                    item = ("cond", cond, truth)
                    path.append(item)
                rec(s, path, seen | {(b, s)})
                if item is not None:
                    path.pop()
        if ev:
            del path[len(path) - len(ev):]

    rec(cfg.entry, [], frozenset())
    return out
