"""LOOPSTATE: which local variables carry a value from one iteration of a loop into the next.

A variable is loop-carried for loop L when it is (may-)defined inside L and live at L's head with respect to uses inside
L: some path from the head reaches a read of it inside the loop without passing a definite write.  Scanner and parser
loops whose iterations must be independent (one argument word, one token) may carry only their cursors; per-item state
(flags, delimiters, value pointers) must be re-established by every iteration.
Backward liveness over the clang CFG restricted to the loop's blocks; definite writes are plain assignments and
declarations, `&v` passed to a call is a use and a may-definition (never a kill)."""
from . import expr as X, nullness
from .facts import walk

NORETURN = {"libast_fatal_error"}


_MUST = {}


def must_store_param(g, j):
    """Does the unit-local function g store through its pointer parameter j (`*P = ..`) on every path to a return, without
    reading `*P` first or letting P escape?  Then a call f(.., &v, ..) is a definite write of v."""
    from . import flow
    key = (g.unit.name, g.name, j)
    if key in _MUST:
        return _MUST[key]
    _MUST[key] = False
    if g.body is None or g.cfg is None or j >= len(g.params) or not g.params[j].get("tp"):
        return False
    pd = g.params[j]["d"]
    # every mention of P is `*P` (as a store target or a read); anything else (P passed on, re-pointed, indexed) is an escape
    for x in walk(g.body):
        if x.get("k") == "ref" and x.get("d") == pd:
            par = g.parent.get(x["i"])
            while par is not None and par.get("k") in ("paren", "icast", "cast"):
                par = g.parent.get(par["i"])
            if par is None or not (par.get("k") == "un" and par.get("op") == "*"):
                return False
    cfg = nullness.prepared_cfg(g, NORETURN)
    bad = [False]
    rets = []

    def is_deref(e):
        e = X.strip(e)
        return e is not None and e.get("k") == "un" and e.get("op") == "*" and (X.strip(e["ch"][0]) or {}).get("d") == pd

    def transfer(st, n, blk):
        if n.get("k") == "assign" and n.get("op") == "=" and is_deref(n["ch"][0]):
            return True
        return st

    def visit(st, n, blk):
        if n.get("k") == "un" and n.get("op") == "*" and (X.strip(n["ch"][0]) or {}).get("d") == pd and not st:
            par = g.parent.get(n["i"])
            while par is not None and par.get("k") in ("paren", "icast", "cast") and par.get("ck") != "LValueToRValue":
                par = g.parent.get(par["i"])
            if not (par is not None and par.get("k") == "assign" and par.get("op") == "=" and is_deref(par["ch"][0]) and any(y is n for y in walk(par["ch"][0]))):
                bad[0] = True
        if n.get("k") == "return":
            rets.append(st)
    flow.forward(cfg, False, transfer, join=lambda a, b: a and b, visit=visit)
    ends = list(rets)
    res = (not bad[0]) and bool(ends) and all(ends)
    # a void function may fall off its end: the exit block's in-state counts too
    if res and not any(x.get("k") == "return" for x in walk(g.body)):
        res = False
    _MUST[key] = res
    return res


def _classify(fn, n):
    """('use'|'def'|'usedef'|'maydef', decl) for a ref element to a local/param, or None"""
    if n.get("k") != "ref" or n.get("rk") not in ("local", "param"):
        return None
    d = n["d"]
    cur = n
    par = fn.parent.get(cur["i"])
    while par is not None and par.get("k") in ("paren", "icast", "cast") and par.get("ck") not in ("LValueToRValue",):
        cur = par
        par = fn.parent.get(cur["i"])
    if par is None:
        return ("use", d)
    if par.get("k") == "assign" and par["ch"][0] is cur:
        return ("def", d) if par.get("op") == "=" else ("usedef", d)
    if par.get("k") == "un" and par.get("op") in ("++", "--"):
        return ("usedef", d)
    if par.get("k") == "un" and par.get("op") == "&":
        # f(.., &v, ..) where f always stores through that parameter before reading it: a definite write
        cur2, q = par, fn.parent.get(par["i"])
        while q is not None and q.get("k") in ("paren", "icast", "cast"):
            cur2, q = q, fn.parent.get(q["i"])
        if q is not None and q.get("k") == "call" and getattr(fn, "unit", None) is not None:
            g = fn.unit.functions.get(X.callee_name(q) or "")
            if g is not None:
                for j, a in enumerate(q["ch"][1:]):
                    if a is cur2 and must_store_param(g, j):
                        return ("def", d)
        return ("maydef", d)
    return ("use", d)


def loop_blocks(fn, cfg, loop):
    ids = set()
    for part in ("cond", "body", "inc"):
        if loop.get(part) is not None:
            for x in walk(loop[part]):
                ids.add(x["i"])
    for c in loop.get("ch", []):
        pass
    blocks = set()
    for b, blk in cfg.blocks.items():
        els = [e for e in blk.el if e in fn.nodes]
        if els and all(e in ids for e in els):
            blocks.add(b)
    return blocks, ids


def loop_carried(fn, loop, cfg=None):
    """{decl id: (def node, use node)} for the locals carried around `loop` (an AST for/while/do node)"""
    cfg = cfg or nullness.prepared_cfg(fn, NORETURN)
    blocks, ids = loop_blocks(fn, cfg, loop)
    if not blocks:
        return {}
    # empty synthetic blocks between loop blocks (join points) belong to the loop when all their successors do
    changed = True
    while changed:
        changed = False
        for b, blk in cfg.blocks.items():
            if b in blocks:
                continue
            els = [e for e in blk.el if e in fn.nodes]
            succ = [s for s, _, _ in cfg.edges(b)]
            if not els and succ and all(s in blocks for s in succ) and any(b in [s for s, _, _ in cfg.edges(p)] for p in blocks):
                blocks.add(b)
                changed = True
    gen, kill, defs, firstuse = {}, {}, {}, {}
    for b in blocks:
        g, k = set(), set()
        for e in cfg.blocks[b].el:
            n = fn.nodes.get(e)
            if n is None:
                continue
            if n.get("k") == "decl":
                for dcl in n.get("decls", ()):
                    k.add(dcl["d"])
                continue
            c = _classify(fn, n)
            if c is None:
                continue
            kind, d = c
            if kind in ("use", "usedef", "maydef") and d not in k:
                g.add(d)
                firstuse.setdefault(d, n)
            if kind == "def":
                # the assignment executes after its right-hand side: uses in the RHS were seen before (element order)
                k.add(d)
            if kind in ("def", "usedef", "maydef"):
                defs.setdefault(d, n)
        gen[b], kill[b] = g, k
    live_in = {b: set() for b in blocks}
    changed = True
    while changed:
        changed = False
        for b in blocks:
            out = set()
            for s, _, _ in cfg.edges(b):
                if s in blocks:
                    out |= live_in[s]
            new = gen[b] | (out - kill[b])
            if new != live_in[b]:
                live_in[b] = new
                changed = True
    # head: the loop block with a predecessor outside the loop
    heads = set()
    for b, blk in cfg.blocks.items():
        if b in blocks:
            continue
        for s, _, _ in cfg.edges(b):
            if s in blocks:
                heads.add(s)
    # for `for` loops the entry from outside reaches the condition block; the back edge re-enters there (or at inc)
    carried = {}
    for h in heads:
        for d in live_in[h]:
            if d in defs:
                carried[d] = (defs[d], firstuse.get(d))
    return carried


def var_name(fn, d):
    for p in fn.params:
        if p["d"] == d:
            return p["n"]
    vd = fn.vardecls.get(d)
    return vd["n"] if vd else "d%d" % d


def header_vars(loop):
    out = set()
    for part in ("init", "cond", "inc"):
        if loop.get(part) is not None:
            for x in walk(loop[part]):
                if x.get("k") == "ref" and x.get("rk") in ("local", "param"):
                    out.add(x["d"])
                if x.get("k") == "decl":
                    for dcl in x.get("decls", ()):
                        out.add(dcl["d"])
    return out


def self_relative_only(fn, loop, d):
    """every definition of d inside the loop moves it relative to its own value (d++, d += e, d = d + e): a counter or cursor"""
    ids = set()
    for part in ("cond", "body", "inc"):
        if loop.get(part) is not None:
            for x in walk(loop[part]):
                ids.add(x["i"])
    for x in walk(fn.body):
        if x["i"] not in ids:
            continue
        if x.get("k") == "un" and x.get("op") == "&":
            t = X.strip(x["ch"][0])
            if t.get("k") == "ref" and t.get("d") == d:
                return False
        if x.get("k") == "assign":
            l = X.strip(x["ch"][0])
            if l.get("k") == "ref" and l.get("d") == d:
                if x.get("op") in ("+=", "-="):
                    continue
                r = X.strip(x["ch"][1])
                if x.get("op") == "=" and r.get("k") == "bin" and r.get("op") in ("+", "-") and X.strip(r["ch"][0]).get("d") == d:
                    continue
                return False
        if x.get("k") == "decl":
            for dcl in x.get("decls", ()):
                if dcl["d"] == d:
                    return False
    return True


def check_item_loop(chk, rule, fn, loop, what, cursors=()):
    """the loop's cross-iteration state is confined to its cursors and counters: a local may carry a value into the next
    iteration only if the loop condition reads it, it is one of the given cursors, or every definition of it inside the loop
    moves it relative to itself (x++, x += n).  Anything else is per-item state that must be re-established for every item."""
    carried = loop_carried(fn, loop)
    hv = header_vars(loop) | set(cursors)
    extra = sorted(d for d in carried if d not in hv and not self_relative_only(fn, loop, d))
    from .report import canon
    if not extra:
        chk.ob(rule, fn.name, "item-loop-state", True, loc=fn.loc(loop),
               proof="loop-carried locals {%s} are cursors/counters of the loop" % ", ".join(sorted(var_name(fn, d) for d in carried)))
    for d in extra:
        dn, un = carried[d]
        chk.ob(rule, fn.name, "item-loop-state:%s" % canon(fn, dn)[:40], False, loc=fn.loc(un or dn),
               detail="%s: `%s` keeps its value from one %s to the next (it is read at %s on a path that has not set it in this "
                      "iteration, and set at %s): the treatment of an item depends on earlier items, not on the item alone" % (
                          fn.name, var_name(fn, d), what, fn.loc(un) if un else "?", fn.loc(dn)))
    return len(carried)
