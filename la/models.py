"""Effect models of libc / system functions used by libast (the trusted base of several rules)."""

# function -> indices of pointer arguments that are dereferenced unconditionally (NULL is a fault)
DEREFS = {
    "strlen": [0], "strcmp": [0, 1], "strncmp": [0, 1], "strcasecmp": [0, 1], "strncasecmp": [0, 1],
    "strcpy": [0, 1], "strncpy": [0, 1], "strcat": [0, 1], "strncat": [0, 1], "strdup": [0], "strndup": [0],
    "strchr": [0], "strrchr": [0], "strstr": [0, 1], "strcasestr": [0, 1], "strpbrk": [0, 1], "strspn": [0, 1],
    "strcspn": [0, 1], "strtol": [0], "strtoul": [0], "strtod": [0], "atoi": [0], "atol": [0], "atof": [0],
    "strnlen": [0], "fprintf": [0, 1], "vfprintf": [0, 1], "sprintf": [0, 1], "snprintf": [1], "vsnprintf": [1],
    "fgets": [0, 2], "fputs": [0, 1], "fread": [0, 3], "fwrite": [0, 3], "fclose": [0], "fflush": [], "fileno": [0],
    "fseek": [0], "ftell": [0], "rewind": [0], "feof": [0], "ferror": [0], "getc": [0], "fgetc": [0], "ungetc": [1],
    "puts": [0], "printf": [0], "perror": [], "getenv": [0], "system": [], "popen": [0, 1], "pclose": [0],
    "fopen": [0, 1], "open": [0], "access": [0], "stat": [0, 1], "lstat": [0, 1], "fstat": [1], "opendir": [0],
    "readdir": [0], "closedir": [0], "unlink": [0], "mkstemp": [0], "read": [], "write": [],
    "getprotobyname": [0], "getservbyname": [0], "gethostbyname": [0], "bind": [1], "connect": [1],
    "pcre_compile": [0], "regcomp": [0, 1], "regexec": [0, 1], "dlopen": [], "dlsym": [1], "sscanf": [0, 1],
    "strtok": [1], "toupper": [], "tolower": [], "inet_addr": [0], "setsockopt": [], "strerror": [],
    "__builtin_strlen": [0], "__builtin_strcmp": [0, 1], "__builtin_strchr": [0],
    "va_start": [], "__builtin_va_start": [], "__builtin_va_end": [],
}

ALLOCATORS = {"malloc", "calloc", "realloc", "strdup", "strndup", "spifmem_malloc", "spifmem_calloc",
              "spifmem_realloc", "spifmem_strdup"}
RAW_ALLOC = {"malloc", "calloc", "realloc", "strdup", "strndup", "free"}
DEALLOCATORS = {"free", "spifmem_free"}

# libast message functions: calls that are not "effects" on the NULL-argument failure path
MESSAGE_FUNCS = {"libast_print_warning", "libast_print_error", "libast_fatal_error", "libast_dprintf",
                 "fprintf", "fflush", "time", "vfprintf", "fputs", "libast_set_silent"}

PURE_LIBC = {"strlen", "strcmp", "strncmp", "strcasecmp", "strncasecmp", "strchr", "strrchr", "strstr",
             "strcasestr", "strpbrk", "strspn", "strcspn", "strnlen", "memcmp", "memchr", "memmem", "isspace",
             "isdigit", "isalpha", "isalnum", "isupper", "islower", "ispunct", "isprint", "toupper", "tolower",
             "atoi", "atol", "atof", "strtol", "strtoul", "strtod", "abs", "labs", "getenv", "__ctype_b_loc",
             "__ctype_tolower_loc", "__ctype_toupper_loc", "__errno_location", "getpid", "getuid", "time",
             "__builtin_expect", "__builtin_strlen", "__builtin_strcmp", "__builtin_strchr", "__builtin_bswap32",
             "__builtin_constant_p", "htons", "ntohs", "htonl", "ntohl", "strerror", "__builtin_nanf", "__builtin_nan",
             "__builtin_va_start", "__builtin_va_end", "__builtin_inff", "__builtin_huge_valf"}

SPAWNERS = {"system", "popen", "fork", "vfork", "execl", "execlp", "execle", "execv", "execvp", "execve",
            "posix_spawn", "posix_spawnp"}

NORETURN_LIBC = {"exit", "_exit", "abort", "_Exit", "__assert_fail", "longjmp"}

# mem* functions dereference their pointer arguments only when the count is non-zero; the nullness rules
# (which do not track counts) therefore do not treat them as dereferences.  CAP does.
COUNTED_DEREFS = {"memcpy": [0, 1], "memmove": [0, 1], "memset": [0], "memcmp": [0, 1], "memchr": [0], "memmem": [0, 1]}
