"""OWN: ownership rules — local allocation leaks, use after release, release typestate helpers."""
import re

from . import expr as X, flow, nullness
from .facts import walk
from .models import ALLOCATORS, DEALLOCATORS, PURE_LIBC, MESSAGE_FUNCS

NONESCAPE_LIBC = PURE_LIBC | MESSAGE_FUNCS | {
    "memcpy", "memmove", "memset", "strcpy", "strncpy", "strcat", "strncat", "snprintf", "sprintf", "vsnprintf",
    "fgets", "fread", "fwrite", "read", "write", "printf", "fputs", "puts", "sscanf", "bind", "connect", "accept",
    "getsockname", "getpeername", "stat", "fstat", "lstat", "access", "open", "fopen", "unlink", "mkstemp",
    "__builtin_memcpy", "__builtin_memset", "__builtin_strcpy", "__builtin___memcpy_chk", "__builtin_object_size",
    "spiftool_safe_strncpy", "spiftool_safe_strncat", "system", "popen", "getcwd", "realpath", "gethostbyname",
    "inet_addr", "inet_aton", "setsockopt", "pcre_exec", "pcre_compile", "regexec", "regcomp", "va_start", "va_end",
    "opendir", "chdir", "mkdir", "rmdir", "rename", "chmod", "getenv", "setenv", "atoi", "strtol", "strtoul",
    "dlsym", "dlopen", "spiftool_chomp", "spiftool_downcase_str", "spiftool_upcase_str", "strsep", "strtok",
}


def release_kind(call):
    """'free' | 'del' | 'done' | None for a call node"""
    cn = X.callee_name(call)
    if cn:
        if cn in DEALLOCATORS:
            return "free"
        if cn.endswith("_del"):
            return "del"
        if cn.endswith("_done"):
            return "done"
        if cn in ("close", "fclose", "pclose", "closedir", "pcre_free", "regfree", "dlclose"):
            return "close"
        return None
    slot = X.dispatch_slot(call)
    if slot == "del":
        return "del"
    if slot == "done":
        return "done"
    return None


def local_ref(e):
    s = X.strip(e)
    if s is not None and s.get("k") == "ref" and s.get("rk") in ("local", "param"):
        return s
    return None


def mentions_local(e, d):
    for x in walk(e):
        if x.get("k") == "ref" and x.get("d") == d:
            return True
    return False


def value_is_local(e, d):
    """expression whose value is (a cast / offset of) local d"""
    s = X.strip(e)
    if s is None:
        return False
    if s.get("k") == "ref" and s.get("d") == d:
        return True
    if s.get("k") == "bin" and s.get("op") in ("+", "-") and s.get("tp"):
        return value_is_local(s["ch"][0], d)
    if s.get("k") == "cond":
        return value_is_local(s["ch"][1], d) or value_is_local(s["ch"][2], d)
    return False


_CONSUMES = {}


def callee_consumes(prog, g, j, depth=0):
    """May the program function g keep or release what its pointer parameter j points at - store the parameter into storage that
    outlives the call, free it, or hand it to a function that does?  (spifconf_put_var takes over both strings it is given.)"""
    key = (g.unit.name, g.name, j)
    if key in _CONSUMES:
        return _CONSUMES[key]
    _CONSUMES[key] = False
    if g.body is None or j >= len(g.params) or depth > 3:
        _CONSUMES[key] = g.body is None
        return _CONSUMES[key]
    pd = g.params[j]["d"]
    res = False
    for x in walk(g.body):
        if x.get("k") == "assign" and x.get("op") == "=":
            l = X.strip(x["ch"][0])
            if not (l.get("k") == "ref" and l.get("rk") in ("local", "param")) and value_is_local(x["ch"][1], pd):
                res = True
        elif x.get("k") == "return" and x.get("val") is not None and value_is_local(x["val"], pd):
            res = True
        elif x.get("k") == "call":
            for jj, a in enumerate(x["ch"][1:]):
                if not value_is_local(a, pd):
                    continue
                cn = X.callee_name(x)
                if release_kind(x) in ("free", "del"):
                    res = True
                elif cn in NONESCAPE_LIBC:
                    continue
                else:
                    h = prog.fn(cn) if cn else None
                    if h is None or h is g or callee_consumes(prog, h, jj, depth + 1):
                        res = True
    _CONSUMES[key] = res
    return res


_RET_FRESH = {}


def returns_fresh(prog, g, depth=0):
    """Does the program function g hand its caller a block the caller owns?  Every `return E` with a non-NULL E returns a
    local all of whose assignments are allocations (malloc family, a constructor, a function with this same summary) or a
    realloc of that very local.  (spiftool_get_word, spiftool_substr, builtin results ...)"""
    key = (g.unit.name, g.name)
    if key in _RET_FRESH:
        return _RET_FRESH[key]
    _RET_FRESH[key] = False
    if g.body is None or depth > 3:
        return False
    rets = [x for x in walk(g.body) if x.get("k") == "return" and x.get("val") is not None and not X.is_null_const(x["val"])]
    if not rets:
        return False
    ok = True
    for r in rets:
        v = X.strip(r["val"])
        if v is None or v.get("k") != "ref" or v.get("rk") != "local":
            ok = False
            break
        d = v["d"]
        defs = []
        for x in walk(g.body):
            if x.get("k") == "assign" and X.strip(x["ch"][0]).get("k") == "ref" and X.strip(x["ch"][0]).get("d") == d:
                defs.append(x["ch"][1] if x.get("op") == "=" else None)
            elif x.get("k") == "decl":
                defs += [dc["init"] for dc in x.get("decls", ()) if dc["d"] == d and dc.get("init") is not None]
        if not defs:
            ok = False
            break
        for e in defs:
            if e is None:
                ok = False
                break
            if X.is_null_const(e):
                continue
            calls = [c for c in X.calls_in(e)]
            se_ = X.strip(e)
            if not calls and se_ is not None and se_.get("k") == "ref" and se_.get("rk") == "local" and se_.get("d") != d:
                # through another local (shrunk = REALLOC(buf, n); buf = shrunk;): what that local is given
                d2 = se_["d"]
                for x in walk(g.body):
                    if x.get("k") == "assign" and x.get("op") == "=" and X.strip(x["ch"][0]).get("k") == "ref" and X.strip(x["ch"][0]).get("d") == d2:
                        calls += [c for c in X.calls_in(x["ch"][1])]
                    elif x.get("k") == "decl":
                        for dc in x.get("decls", ()):
                            if dc["d"] == d2 and dc.get("init") is not None:
                                calls += [c for c in X.calls_in(dc["init"])]
            good = False
            for c in calls:
                cn = X.callee_name(c) or ""
                if nullness.fresh_call(c) and not cn.endswith("_init"):
                    good = True
                elif cn in ("realloc", "spifmem_realloc") and any(y.get("k") == "ref" and y.get("d") == d for y in walk(c)):
                    good = True
                else:
                    h = prog.fn(cn) if cn else None
                    if h is not None and h is not g and returns_fresh(prog, h, depth + 1):
                        good = True
            if not good:
                ok = False
                break
        if not ok:
            break
    _RET_FRESH[key] = ok
    return ok


def leaks(fn, prog, noreturn=("libast_fatal_error",)):
    """[(alloc node, exit node or overwriting node, local name, reason)] — locals holding a fresh allocation that
    some path neither releases, returns nor stores."""
    cfg = nullness.prepared_cfg(fn, set(noreturn))
    if cfg is None:
        return []
    local_ids = set(fn.vardecls)
    ptr_locals = {d for d, v in fn.vardecls.items() if v.get("tp") and not v.get("alen")}
    reports = []
    alloc_site = {}

    def fresh(e):
        s = X.strip(e)
        if s is None or s.get("k") != "call":
            return False
        if nullness.fresh_call(s) and not (X.callee_name(s) or "").endswith("_init"):
            return True
        g_ = prog.fn(X.callee_name(s) or "") if X.callee_name(s) else None
        return g_ is not None and g_ is not fn and returns_fresh(prog, g_)

    def realloc_like(e):
        s = X.strip(e)
        while s is not None and s.get("k") == "cond":
            # REALLOC macro: ((sz) ? ((mem) ? realloc(mem,sz) : malloc(sz)) : ((mem) ? (free(mem), NULL) : NULL))
            return any(X.callee_name(c) in ("realloc", "spifmem_realloc") for c in X.calls_in(s))
        return s is not None and s.get("k") == "call" and X.callee_name(s) in ("realloc", "spifmem_realloc")

    def owners(st, e, mention=False):
        """owned locals whose value `e` carries (directly or through an alias local)"""
        res = set()
        test = mentions_local if mention else value_is_local
        for x in st:
            if x[0] == "own" and test(e, x[1]):
                res.add(x[1])
            if x[0] == "al" and test(e, x[1]) and ("own", x[2]) in st:
                res.add(x[2])
        return res

    def transfer(state, n, blk):
        k = n.get("k")
        if k == "assign" and n.get("op") == "=":
            l = X.strip(n["ch"][0])
            rhs = n["ch"][1]
            if fresh(rhs) or realloc_like(rhs):
                pth = X.apath(l)
                if pth is not None:
                    state = state | {("fr", pth)}
            if l.get("k") == "ref" and l.get("d") in ptr_locals:
                d = l["d"]
                st = set(state)
                if ("own", d) in st and not mentions_local(rhs, d):
                    reports.append((alloc_site.get(d), n, fn.vardecls[d]["n"], "overwritten while it still owns the allocation"))
                st.discard(("own", d))
                if fresh(rhs) or realloc_like(rhs):
                    st.add(("own", d))
                    alloc_site.setdefault(d, n)
                else:
                    # d becomes an alias (cursor / copy) of an owned local: escaping d escapes the owner
                    for x in list(st):
                        if x[0] == "al" and x[1] == d:
                            st.discard(x)
                    for (t, e) in [x for x in st if x[0] == "own"]:
                        if e != d and value_is_local(rhs, e):
                            st.add(("al", d, e))
                    for x in [x for x in st if x[0] == "al"]:
                        if x[1] != d and value_is_local(rhs, x[1]):
                            st.add(("al", d, x[2]))
                return frozenset(st)
            # store of an owned local into non-local storage: escape
            st = set(state)
            if l.get("k") != "ref" or l.get("d") not in local_ids:
                for e in owners(st, rhs):
                    st.discard(("own", e))
            return frozenset(st)
        if k == "decl":
            st = set(state)
            for dcl in n.get("decls", ()):
                if dcl["d"] in ptr_locals and dcl.get("init") is not None:
                    if fresh(dcl["init"]):
                        st.add(("own", dcl["d"]))
                        alloc_site.setdefault(dcl["d"], n)
                    else:
                        for (t, e) in [x for x in st if x[0] == "own"]:
                            if value_is_local(dcl["init"], e):
                                st.add(("al", dcl["d"], e))
            return frozenset(st)
        if k == "call":
            cn = X.callee_name(n)
            st = set(state)
            args = n["ch"][1:]
            for j, a in enumerate(args):
                sa = X.strip(a)
                isaddr = sa.get("k") == "un" and sa.get("op") == "&"
                for e in owners(st, a, mention=isaddr):
                    addr = isaddr
                    if ("own", e) not in st:
                        continue
                    if release_kind(n) in ("free", "del"):
                        st.discard(("own", e))
                    elif cn in NONESCAPE_LIBC:
                        pass
                    elif cn and prog.fn(cn) is not None and j == 0 and not addr and not callee_consumes(prog, prog.fn(cn), 0):
                        pass   # method call on the object itself (the callee neither keeps nor releases it)
                    elif cn is None and X.dispatch_slot(n) not in (None, "del") and j == 0 and not addr:
                        pass   # dispatched method on the object itself
                    else:
                        st.discard(("own", e))   # handed to a callee that may keep it
            return frozenset(st)
        if k == "return":
            v = n.get("val")
            st = set(state)
            if v is not None:
                for e in owners(st, v, mention=True):
                    st.discard(("own", e))
            assert_arm = any(m_.startswith("b:ASSERT") for m_ in n.get("m", []))
            for x in st:
                t, e = x[0], x[1]
                if t == "own" and not assert_arm:      # the failing arm of an ASSERT is a cannot-happen path
                    reports.append((alloc_site.get(e), n, fn.vardecls[e]["n"], "not released, returned or stored on this path"))
            return frozenset(x for x in st if x[0] not in ("own", "al"))
        return state

    def refine(state, cond, truth, blk):
        if isinstance(truth, tuple):
            return state
        st = set(state)
        for f in X.implied(cond, truth):
            if f[0] == "null":
                if ("fr", f[1]) in st:
                    return None      # allocation-failure path: outside every property's quantifier
                rd = X.root_decl(f[1])
                if f[1] == "d%s" % rd:
                    st.discard(("own", rd))
        return frozenset(st)

    # run to fixpoint first (reports are collected on the final pass only)
    def t0(state, n, blk):
        saved = list(reports)
        r = transfer(state, n, blk)
        del reports[:]
        reports.extend(saved)
        return r
    ins = flow.forward(cfg, frozenset(), t0, refine=refine, join=lambda a, b: a | b)
    del reports[:]
    for b in cfg.rpo():
        if b not in ins:
            continue
        st = ins[b]
        for e in cfg.blocks[b].el:
            n = fn.nodes.get(e)
            if n is not None:
                st = transfer(st, n, cfg.blocks[b])
    # functions that fall off the end (void): owned locals at the exit block
    seen = set()
    out = []
    for a, x, name, why in reports:
        key = (a["i"] if a else None, x["i"], name)
        if key not in seen:
            seen.add(key)
            out.append((a, x, name, why))
    return out


def use_after_release(fn, prog, noreturn=("libast_fatal_error",)):
    """[(release node, use node, path)] — a local or self->field released by free/del and then used without being
    re-assigned (must-facts: released on every path reaching the use)."""
    cfg = nullness.prepared_cfg(fn, set(noreturn))
    if cfg is None:
        return []
    out = []
    site = {}

    def transfer(state, n, blk):
        k = n.get("k")
        if k == "assign":
            p = X.apath(n["ch"][0])
            if p is not None:
                return frozenset(f for f in state if not nullness._kills(p, f[1]))
            return state
        if k == "un" and n.get("op") in ("++", "--"):
            p = X.apath(n["ch"][0])
            if p is not None:
                return frozenset(f for f in state if not nullness._kills(p, f[1]))
        if k == "decl":
            st = state
            for d in n.get("decls", ()):
                st = frozenset(f for f in st if not nullness._kills("d%d" % d["d"], f[1]))
            return st
        if k == "call" and release_kind(n) in ("free", "del"):
            args = n["ch"][1:]
            if args:
                p = X.apath(args[0])
                if p is not None and re.match(r"^d\d+(->\w+)?$", p):
                    site[p] = n
                    return state | {("freed", p)}
        return state

    def visit(state, n, blk):
        if not state:
            return
        freed = {f[1] for f in state}
        k = n.get("k")
        for base, kind in nullness.deref_sites(fn, n):
            p = X.apath(base)
            if p in freed:
                out.append((site.get(p), n, p))
        if k == "call":
            for a in n["ch"][1:]:
                p = X.apath(a)
                if p in freed:
                    out.append((site.get(p), n, p))
        if k == "return" and n.get("val") is not None:
            p = X.apath(n["val"])
            if p in freed:
                out.append((site.get(p), n, p))
    flow.forward(cfg, frozenset(), transfer, visit=visit)
    seen = set()
    res = []
    for r, u, p in out:
        if (u["i"], p) not in seen:
            seen.add((u["i"], p))
            res.append((r, u, p))
    return res
