"""Truth table of a pure predicate over one byte of a string (finite-domain abstract evaluation: the domain of a char has 256
values, so the table is exact).  Used to compare the character class a helper tests for with the class its contract names
(safe_str: the control characters of the C locale).  Anything outside the little expression language (arithmetic and
comparisons on the byte, casts, logical operators, the C-locale ctype table) makes the predicate undecided."""
from . import expr as X

# glibc little-endian ctype bits
_BITS = {"upper": 256, "lower": 512, "alpha": 1024, "digit": 2048, "xdigit": 4096, "space": 8192, "print": 16384, "graph": 32768,
         "blank": 1, "cntrl": 2, "punct": 4, "alnum": 8}
_CTYPE_FUNCS = {"iscntrl": "cntrl", "isprint": "print", "isspace": "space", "isalpha": "alpha", "isdigit": "digit", "isalnum": "alnum",
                "ispunct": "punct", "isgraph": "graph", "isupper": "upper", "islower": "lower", "isxdigit": "xdigit", "isblank": "blank"}


def c_locale_mask(c):
    """ctype bit mask of byte value c (0..255) in the C locale; values outside 0..127 have no class"""
    if c < 0 or c > 127:
        return 0
    ch = chr(c)
    m = 0
    if c < 32 or c == 127:
        m |= _BITS["cntrl"]
    if "A" <= ch <= "Z":
        m |= _BITS["upper"] | _BITS["alpha"] | _BITS["alnum"]
    if "a" <= ch <= "z":
        m |= _BITS["lower"] | _BITS["alpha"] | _BITS["alnum"]
    if "0" <= ch <= "9":
        m |= _BITS["digit"] | _BITS["alnum"] | _BITS["xdigit"]
    if ch in "abcdefABCDEF":
        m |= _BITS["xdigit"]
    if ch in " \t\n\v\f\r":
        m |= _BITS["space"]
    if ch in " \t":
        m |= _BITS["blank"]
    if 32 <= c < 127:
        m |= _BITS["print"]
    if 32 < c < 127:
        m |= _BITS["graph"]
        if not (m & _BITS["alnum"]):
            m |= _BITS["punct"]
    return m


class Undecided(Exception):
    pass


def _wrap(v, n):
    w, s = n.get("tw"), n.get("ts")
    if w is None or n.get("tp"):
        return v
    v &= (1 << w) - 1
    if s and v >= (1 << (w - 1)):
        v -= 1 << w
    return v


def evaluate(n, is_byte, byte):
    """value of expression n when the byte expression (is_byte(node) true) holds `byte` (0..255, seen through the type of that
    expression: a plain char is signed here)"""
    if is_byte(n):
        return _wrap(byte, n)
    k = n.get("k")
    cv = X.const_val(n)
    if cv is not None and k in ("int", "char", "ref"):
        return cv
    if k == "paren":
        return evaluate(n["ch"][0], is_byte, byte)
    if k in ("icast", "cast"):
        v = evaluate(n["ch"][0], is_byte, byte)
        if n.get("ck") in ("IntegralCast", "NoOp", "LValueToRValue", None) or n.get("tw"):
            return _wrap(v, n) if n.get("ck") == "IntegralCast" or k == "cast" else v
        return v
    if k == "un":
        op = n.get("op")
        if op == "!":
            return int(not evaluate(n["ch"][0], is_byte, byte))
        if op == "-":
            return -evaluate(n["ch"][0], is_byte, byte)
        if op == "~":
            return _wrap(~evaluate(n["ch"][0], is_byte, byte), n)
        raise Undecided("unary %s" % op)
    if k == "bin":
        op = n.get("op")
        if op == "&&":
            return int(bool(evaluate(n["ch"][0], is_byte, byte)) and bool(evaluate(n["ch"][1], is_byte, byte)))
        if op == "||":
            return int(bool(evaluate(n["ch"][0], is_byte, byte)) or bool(evaluate(n["ch"][1], is_byte, byte)))
        a, b = evaluate(n["ch"][0], is_byte, byte), evaluate(n["ch"][1], is_byte, byte)
        if op in ("<", ">", "<=", ">=", "==", "!="):
            return int({"<": a < b, ">": a > b, "<=": a <= b, ">=": a >= b, "==": a == b, "!=": a != b}[op])
        if op in ("+", "-", "&", "|", "^"):
            return _wrap({"+": a + b, "-": a - b, "&": a & b, "|": a | b, "^": a ^ b}[op], n)
        raise Undecided("operator %s" % op)
    if k == "cond":
        return evaluate(n["ch"][1] if evaluate(n["ch"][0], is_byte, byte) else n["ch"][2], is_byte, byte)
    if k == "index":
        # (*__ctype_b_loc())[c]
        base = n["ch"][0]
        from .facts import walk
        if any(y.get("k") == "call" and X.callee_name(y) == "__ctype_b_loc" for y in walk(base)):
            c = evaluate(n["ch"][1], is_byte, byte)
            return c_locale_mask(c)
        raise Undecided("index")
    if k == "call":
        cn = X.callee_name(n)
        if cn in _CTYPE_FUNCS and n["ch"][1:]:
            c = evaluate(n["ch"][1], is_byte, byte)
            return int(bool(c_locale_mask(c) & _BITS[_CTYPE_FUNCS[cn]]))
        raise Undecided("call of %s" % cn)
    raise Undecided("expression kind %s" % k)


def truth_table(cond, is_byte):
    """{byte value: bool} over 0..255, or raises Undecided"""
    return {b: bool(evaluate(cond, is_byte, b)) for b in range(256)}
