"""NULCURSOR: typestate of a cursor over a NUL-terminated string.

For a cursor variable p the analysis tracks  safe(p) = m : the bytes p[0..m-1] are known to be non-NUL, hence
p[0..m] may be read and p may be advanced by up to m.  Facts come from branch conditions on *p, p[k], *(p+k), ctype
tests and switch case labels; p++ consumes one unit (advancing over a byte not known to be non-NUL may pass the
terminator), p-- gives one back (the byte stepped over was non-NUL).  Join = minimum.  A read of p[k] with k > safe(p),
or an advance with safe(p) = 0, is reported.
"""
from . import expr as X, flow, nullness
from .facts import walk

CTYPE_TABLES = {"__ctype_b_loc"}
CTYPE_FUNCS = {"isspace", "isdigit", "isalpha", "isalnum", "isupper", "islower", "ispunct", "isprint", "isxdigit", "iscntrl", "isgraph"}


class Cursors(set):
    """a set of cursor decl ids; index_base maps an *index* cursor (an integer i used as s[i]) to the decl of the string s it
    indexes, which the function never re-points.  s[i + k], *(s + i + k) and &s[i + k] then read / denote position k from the
    cursor, and i++ / i += n advance it, exactly as p[k], p + k, p++ do for a pointer cursor."""

    def __init__(self, *a):
        set.__init__(self, *a)
        self.index_base = {}


def index_expr(e, cursors):
    """(index cursor decl, k) if the integer expression e is i, i + k, i - k, ++i, i++ for an index cursor i"""
    ib = getattr(cursors, "index_base", None)
    if not ib:
        return None
    s = X.strip(e)
    if s is None:
        return None
    if s.get("k") == "ref" and s.get("d") in ib:
        return s["d"], 0
    if s.get("k") == "un" and s.get("op") in ("++", "--"):
        t = strip_ref(s["ch"][0])
        if t is not None and t.get("d") in ib:
            if s.get("post"):
                return t["d"], (-1 if s["op"] == "++" else 1)
            return t["d"], 0
    if s.get("k") == "bin" and s.get("op") in ("+", "-") and not s.get("tp"):
        b = index_expr(s["ch"][0], cursors)
        k = X.const_val(s["ch"][1])
        if b is not None and k is not None:
            return b[0], b[1] + (k if s["op"] == "+" else -k)
        if s["op"] == "+":
            b = index_expr(s["ch"][1], cursors)
            k = X.const_val(s["ch"][0])
            if b is not None and k is not None:
                return b[0], b[1] + k
    return None


def _is_base(e, cursors, d):
    s = X.strip(e)
    return s is not None and s.get("k") == "ref" and getattr(cursors, "index_base", {}).get(d) == s.get("d")


def strip_ref(e):
    s = X.strip(e)
    return s if s is not None and s.get("k") == "ref" else None


def cursor_offset(e, cursors):
    """(decl id, const offset) if e is p, p + k, or a cast of those"""
    s = X.strip(e)
    if s is None:
        return None
    ib = getattr(cursors, "index_base", None)
    if ib:
        # s + I  /  &s[I]  for an index cursor
        if s.get("k") == "bin" and s.get("op") == "+" and s.get("tp"):
            for x, y in ((s["ch"][0], s["ch"][1]), (s["ch"][1], s["ch"][0])):
                ie = index_expr(y, cursors)
                if ie is not None and _is_base(x, cursors, ie[0]):
                    return ie
        if s.get("k") == "un" and s.get("op") == "&":
            t = X.strip(s["ch"][0])
            if t is not None and t.get("k") == "index":
                ie = index_expr(t["ch"][1], cursors)
                if ie is not None and _is_base(t["ch"][0], cursors, ie[0]):
                    return ie
        if s.get("k") in ("ref", "un") and index_expr(s, cursors) is not None:
            return None            # the bare index is an integer, not a position in the string
    if s.get("k") == "ref" and s.get("d") in cursors:
        return s["d"], 0
    if s.get("k") == "un" and s.get("op") in ("++", "--"):
        t = strip_ref(s["ch"][0])
        if t is not None and t.get("d") in cursors:
            # the value of ++p is the (already moved) cursor; of p++ the position before it
            if s.get("post"):
                return t["d"], (-1 if s["op"] == "++" else 1)
            return t["d"], 0
    if s.get("k") == "bin" and s.get("op") in ("+", "-") and s.get("tp"):
        b = cursor_offset(s["ch"][0], cursors)
        k = X.const_val(s["ch"][1])
        if b is not None and k is not None:
            return b[0], b[1] + (k if s["op"] == "+" else -k)
    return None


def byte_expr(e, cursors, aliases=None):
    """(decl, k) if e reads the byte p[k] (through *, [], casts, tolower/toupper), or is a local that holds that byte"""
    s = X.strip(e)
    if s is None:
        return None
    if aliases and s.get("k") == "ref" and s.get("d") in aliases:
        return aliases[s["d"]]
    if s.get("k") == "un" and s.get("op") == "*":
        return cursor_offset(s["ch"][0], cursors)
    if s.get("k") == "index":
        ie = index_expr(s["ch"][1], cursors)
        if ie is not None and _is_base(s["ch"][0], cursors, ie[0]):
            return ie
        b = cursor_offset(s["ch"][0], cursors)
        k = X.const_val(s["ch"][1])
        if b is not None and k is not None:
            return b[0], b[1] + k
        return None
    if s.get("k") == "call" and X.callee_name(s) in ("tolower", "toupper") and s["ch"][1:]:
        return byte_expr(s["ch"][1], cursors, aliases)
    if s.get("k") == "assign" and s.get("op") == "=":
        return byte_expr(s["ch"][1], cursors, aliases)      # (c = *s)
    return None


def ctype_byte(e, cursors, aliases=None):
    """(decl,k) if e is a ctype classification of byte p[k] (glibc table form or function form)"""
    s = X.strip(e)
    if s is None:
        return None
    if s.get("k") == "bin" and s.get("op") == "&":
        return ctype_byte(s["ch"][0], cursors, aliases)
    if s.get("k") == "index":
        b0 = X.strip(s["ch"][0])
        if b0.get("k") == "un" and b0.get("op") == "*":
            c0 = X.strip(b0["ch"][0])
            if c0.get("k") == "call" and X.callee_name(c0) in CTYPE_TABLES:
                return byte_expr(s["ch"][1], cursors, aliases)
    if s.get("k") == "call" and X.callee_name(s) in CTYPE_FUNCS and s["ch"][1:]:
        return byte_expr(s["ch"][1], cursors, aliases)
    return None


def nz_facts(cond, truth, cursors, aliases=None):
    """bytes known non-NUL when cond evaluates to truth: set of (decl, k)"""
    n = X.strip(cond)
    if n is None:
        return set()
    k = n.get("k")
    if k == "un" and n.get("op") == "!":
        return nz_facts(n["ch"][0], not truth, cursors, aliases)
    if k == "bin":
        op = n.get("op")
        a, b = n["ch"][0], n["ch"][1]
        if op == "&&":
            return (nz_facts(a, True, cursors, aliases) | nz_facts(b, True, cursors, aliases)) if truth else (nz_facts(a, False, cursors, aliases) & nz_facts(b, False, cursors, aliases))
        if op == "||":
            return (nz_facts(a, True, cursors, aliases) & nz_facts(b, True, cursors, aliases)) if truth else (nz_facts(a, False, cursors, aliases) | nz_facts(b, False, cursors, aliases))
        if op in ("==", "!="):
            eq = (op == "==") == truth
            for x, y in ((a, b), (b, a)):
                cv = X.const_val(y)
                be = byte_expr(x, cursors, aliases)
                if be is not None and cv is not None:
                    if eq and cv != 0:
                        return {be}
                    if (not eq) and cv == 0:
                        return {be}
            return set()
        if op in ("<", ">", "<=", ">="):
            return set()
        if op == "&":
            cb = ctype_byte(n, cursors, aliases)
            return {cb} if (cb is not None and truth) else set()
    be = byte_expr(n, cursors, aliases)
    if be is not None:
        return {be} if truth else set()
    cb = ctype_byte(n, cursors, aliases)
    if cb is not None and truth:
        return {cb}
    return set()


def eqvar_facts(cond, truth, cursors, aliases=None):
    """{((decl, k), var decl)}: bytes known EQUAL to the value of a local variable when cond evaluates to truth
    (`*p == closer`): non-NUL wherever that local is known to be non-zero"""
    n = X.strip(cond)
    if n is None:
        return set()
    k = n.get("k")
    if k == "un" and n.get("op") == "!":
        return eqvar_facts(n["ch"][0], not truth, cursors, aliases)
    if k == "bin":
        op = n.get("op")
        a, b = n["ch"][0], n["ch"][1]
        if op == "&&":
            return (eqvar_facts(a, True, cursors, aliases) | eqvar_facts(b, True, cursors, aliases)) if truth else set()
        if op == "||":
            return set() if truth else (eqvar_facts(a, False, cursors, aliases) | eqvar_facts(b, False, cursors, aliases))
        if op in ("==", "!=") and ((op == "==") == truth):
            for x, y in ((a, b), (b, a)):
                be = byte_expr(x, cursors, aliases)
                sy = X.strip(y)
                if be is not None and sy is not None and sy.get("k") == "ref" and sy.get("rk") == "local" and X.const_val(sy) is None:
                    return {(be, sy["d"])}
    return set()


_UNCOND = {}


def unconditional_read(g, j):
    """largest constant k such that g reads P_j[k] before any branch (its first basic block): a caller must know the k bytes in
    front of it to be non-NUL.  None if there is no such read."""
    key = (id(g), j)
    if key in _UNCOND:
        return _UNCOND[key]
    _UNCOND[key] = None
    if g.body is None or g.cfg is None or j >= len(g.params):
        return None
    pd = g.params[j]["d"]
    cfg = nullness.prepared_cfg(g, set())
    best = None
    b = cfg.blocks.get(cfg.entry)
    seen = set()
    # follow the straight-line prefix (blocks with a single successor) from the entry
    while b is not None and b.id not in seen:
        seen.add(b.id)
        for e in b.el:
            n = g.nodes.get(e)
            if n is None:
                continue
            k = None
            if n.get("k") == "index" and X.strip(n["ch"][0]).get("d") == pd:
                k = X.const_val(n["ch"][1])
            elif n.get("k") == "un" and n.get("op") == "*":
                co = cursor_offset(n["ch"][0], {pd})
                k = co[1] if co is not None else None
            if n.get("k") == "assign" and X.strip(n["ch"][0]).get("d") == pd:
                _UNCOND[key] = best
                return best         # the parameter is re-pointed: stop
            if n.get("k") == "un" and n.get("op") in ("++", "--") and X.strip(n["ch"][0]).get("d") == pd:
                _UNCOND[key] = best
                return best
            if k is not None and k >= 0:
                best = k if best is None else max(best, k)
        succ = [x for x in b.succ if x is not None]
        if len(succ) != 1 or b.cond is not None:
            break
        b = cfg.blocks.get(succ[0])
    _UNCOND[key] = best
    return best


def analyse(fn, cursors, entry_safe=0, justified=None, noreturn=("libast_fatal_error",)):
    """cursors: set of decl ids.  Returns [(node, kind, message)] violations and the number of reads/advances checked."""
    cfg = nullness.prepared_cfg(fn, set(noreturn))
    justified = justified or (lambda node, state: False)
    viol = []
    checked = [0]

    def get(state, d):
        for x in state:
            if x[0] == "safe" and x[1] == d:
                return x[2]
        return None

    def put(state, d, v):
        return frozenset([x for x in state if not (x[0] == "safe" and x[1] == d)] + [("safe", d, v)])

    def reads_in(n):
        """byte reads performed by evaluating node n itself"""
        be = None
        if n.get("k") == "un" and n.get("op") == "*":
            be = cursor_offset(n["ch"][0], cursors)
        elif n.get("k") == "index":
            ie = index_expr(n["ch"][1], cursors)
            if ie is not None and _is_base(n["ch"][0], cursors, ie[0]):
                return ie
            ib_ = getattr(cursors, "index_base", None)
            if ib_:
                # s[<something else that mentions the index cursor>]: a variable offset from the cursor
                b0 = X.strip(n["ch"][0])
                for d_, bd_ in ib_.items():
                    if b0 is not None and b0.get("k") == "ref" and b0.get("d") == bd_:
                        if any(y.get("k") == "ref" and y.get("d") == d_ for y in walk(n["ch"][1])):
                            return (d_, None)
            b = cursor_offset(n["ch"][0], cursors)
            kk = X.const_val(n["ch"][1])
            if b is not None:
                be = (b[0], b[1] + kk) if kk is not None else (b[0], None)
        return be

    def aliases_of(state):
        return {x[1]: (x[2], x[3]) for x in state if x[0] == "alias"}

    def shift_aliases(state, d, by):
        """the cursor d has moved by `by`: a local that holds p[k] now holds p[k - by]; by None = re-pointed, aliases die"""
        out = []
        for x in state:
            if x[0] == "alias" and x[2] == d:
                if by is not None:
                    out.append(("alias", x[1], d, x[3] - by))
            else:
                out.append(x)
        return frozenset(out)

    def transfer(state, n, blk, report=False):
        st_ = _transfer(state, n, blk, report)
        k = n.get("k")
        # locals that hold a byte at a known distance from a cursor (next = p[1]): a later test of the local is a test of that byte
        if k == "un" and n.get("op") in ("++", "--"):
            t = X.strip(n["ch"][0])
            if t.get("k") == "ref" and t.get("d") in cursors:
                return shift_aliases(st_, t["d"], 1 if n["op"] == "++" else -1)
        if k == "assign":
            t = X.strip(n["ch"][0])
            if t.get("k") == "ref" and t.get("d") in cursors:
                kk = X.const_val(n["ch"][1]) if n.get("op") in ("+=", "-=") else None
                if kk is not None:
                    return shift_aliases(st_, t["d"], kk if n["op"] == "+=" else -kk)
                return shift_aliases(st_, t["d"], None)
            if t.get("k") == "ref" and t.get("rk") == "local" and t.get("d") not in cursors:
                st2 = frozenset(x for x in st_ if not (x[0] == "alias" and x[1] == t["d"]))
                if n.get("op") == "=":
                    be_ = byte_expr(n["ch"][1], cursors)
                    if be_ is not None and not any(y.get("k") == "un" and y.get("op") in ("++", "--") for y in walk(n["ch"][1])):
                        st2 = st2 | {("alias", t["d"], be_[0], be_[1])}
                return st2
        if k == "decl":
            st2 = st_
            for dcl in n.get("decls", ()):
                if dcl["d"] in cursors:
                    continue
                st2 = frozenset(x for x in st2 if not (x[0] == "alias" and x[1] == dcl["d"]))
                if dcl.get("init") is not None:
                    be_ = byte_expr(dcl["init"], cursors)
                    if be_ is not None and not any(y.get("k") == "un" and y.get("op") in ("++", "--") for y in walk(dcl["init"])):
                        st2 = st2 | {("alias", dcl["d"], be_[0], be_[1])}
            return st2
        return st_

    def _transfer(state, n, blk, report=False):
        k = n.get("k")
        if k == "call" and report:
            # a unit-local callee that reads arg[k] before testing anything: the k bytes before it must be known non-NUL here
            g = fn.unit.functions.get(X.callee_name(n) or "") if getattr(fn, "unit", None) is not None else None
            if g is not None:
                for j, a in enumerate(n["ch"][1:]):
                    co = cursor_offset(a, cursors)
                    if co is None or get(state, co[0]) is None:
                        continue
                    kk = unconditional_read(g, j)
                    if kk is None:
                        continue
                    checked[0] += 1
                    if co[1] + kk > get(state, co[0]) and not justified(n, state):
                        viol.append((n, "read", "%s() reads byte %d of the string it is handed (%s) although only %d byte(s) from the "
                                     "cursor are known to precede the terminator: the read can go past the end of the input" % (
                                         g.name, kk, X.render(a)[:20], get(state, co[0]))))
        be = reads_in(n)
        if be is not None:
            d, off = be
            cur = get(state, d)
            if report and cur is not None:
                checked[0] += 1
                if off is None:
                    if not justified(n, state):
                        viol.append((n, "read", "read of %s at a variable offset from the cursor that no comparison justifies" % X.render(n)[:40]))
                elif off > cur and not justified(n, state):
                    viol.append((n, "read", "%s is read although only %d byte(s) from the cursor are known to precede the terminator: "
                                 "the read can go past the end of the input" % (X.render(n)[:40], cur)))
                # bytes behind the cursor were stepped over one by one and are inside the string
        if k == "un" and n.get("op") in ("++", "--"):
            t = X.strip(n["ch"][0])
            if t.get("k") == "ref" and t.get("d") in cursors:
                cur = get(state, t["d"])
                if cur is None:
                    return state
                if n["op"] == "++":
                    if report:
                        checked[0] += 1
                        if cur < 1 and not justified(n, state):
                            viol.append((n, "advance", "the cursor is advanced over a byte that is not known to be non-NUL: it can move past "
                                         "the terminator (%s)" % X.render(n)))
                    return put(state, t["d"], max(cur - 1, 0))
                return put(state, t["d"], cur + 1)
        if k == "assign":
            t = X.strip(n["ch"][0])
            if t.get("k") == "ref" and t.get("d") in cursors:
                d = t["d"]
                cur = get(state, d)
                if n.get("op") in ("+=", "-="):
                    kk = X.const_val(n["ch"][1])
                    if cur is None:
                        return state
                    if kk is None:
                        rr = X.strip(n["ch"][1])
                        if rr.get("k") == "call" and X.callee_name(rr) in ("strlen", "__builtin_strlen") and cursor_offset(rr["ch"][1], cursors) == (d, 0) and n["op"] == "+=":
                            return put(state, d, 0)     # p += strlen(p): exactly onto the terminator
                        if report:
                            checked[0] += 1
                            if not justified(n, state):
                                viol.append((n, "advance", "the cursor is moved by a variable amount that no comparison justifies (%s)" % X.render(n)[:40]))
                        return put(state, d, 0)
                    if n["op"] == "-=":
                        kk = -kk
                    if kk > 0:
                        if report:
                            checked[0] += 1
                            if cur < kk and not justified(n, state):
                                viol.append((n, "advance", "the cursor is advanced by %d with only %d byte(s) known before the terminator" % (kk, cur)))
                        return put(state, d, max(cur - kk, 0))
                    return put(state, d, cur - kk)
                if n.get("op") == "=":
                    src = cursor_offset(n["ch"][1], cursors)
                    if d in getattr(cursors, "index_base", {}):
                        src = index_expr(n["ch"][1], cursors)
                        if src is None and X.const_val(n["ch"][1]) != 0:
                            if report:
                                checked[0] += 1
                                if not justified(n, state):
                                    viol.append((n, "advance", "the index cursor is set to a value no comparison justifies (%s)" % X.render(n)[:40]))
                            return put(state, d, 0)
                    if src is not None and get(state, src[0]) is not None:
                        v = get(state, src[0]) - src[1]
                        if src[1] > 0 and report:
                            checked[0] += 1
                            if get(state, src[0]) < src[1]:
                                viol.append((n, "advance", "cursor set %d past a position with only %d byte(s) known before the terminator" % (src[1], get(state, src[0]))))
                        return put(state, d, max(v, 0))
                    # re-pointed at another string start: a valid string start, nothing known beyond
                    return put(state, d, 0)
        if k == "decl":
            st = state
            for dcl in n.get("decls", ()):
                if dcl["d"] in cursors:
                    st = put(st, dcl["d"], 0)
            return st
        return state

    def refine(state, cond, truth, blk):
        al = aliases_of(state)
        if isinstance(truth, tuple):
            be = byte_expr(cond, cursors, al)
            if be is not None and get(state, be[0]) is not None:
                if truth[0] == "case" and truth[1] not in (None, 0):
                    return put(state, be[0], max(get(state, be[0]), be[1] + 1))
            return state
        st = state
        facts_ = set(nz_facts(cond, truth, cursors, al))
        for be_, vd_ in eqvar_facts(cond, truth, cursors, al):
            if ("flag", vd_, 1) in state:           # equal to a mode variable that is non-zero in this world
                facts_.add(be_)
        for d, off in facts_:
            cur = get(st, d)
            if cur is not None and off >= 0 and off <= cur:
                st = put(st, d, max(cur, off + 1))
        return st

    def join(a, b):
        out = []
        da = {x[1]: x[2] for x in a if x[0] == "safe"}
        db = {x[1]: x[2] for x in b if x[0] == "safe"}
        for d in da:
            if d in db:
                out.append(("safe", d, min(da[d], db[d])))
        out += [x for x in a if x[0] != "safe" and x in b]
        return frozenset(out)

    # ---- trace partitioning on boolean mode flags: int locals that are only ever assigned constants (islong = 1) select which
    # arm of an earlier if the path came through; the cursor facts are kept per flag valuation instead of being merged
    flagvars = set()
    bad_flag = set()
    for x in walk(fn.body):
        if x.get("k") == "assign":
            t = X.strip(x["ch"][0])
            if t.get("k") == "ref" and t.get("rk") == "local" and not t.get("tp") and t.get("d") not in cursors:
                if x.get("op") == "=" and X.const_val(x["ch"][1]) is not None:
                    flagvars.add(t["d"])
                else:
                    bad_flag.add(t["d"])
        elif x.get("k") == "decl":
            for dcl in x.get("decls", ()):
                if dcl.get("init") is not None and not dcl.get("tp") and dcl["d"] not in cursors:
                    if X.const_val(dcl["init"]) is not None:
                        flagvars.add(dcl["d"])
                    else:
                        bad_flag.add(dcl["d"])
        elif x.get("k") == "un" and x.get("op") in ("++", "--", "&"):
            t = X.strip(x["ch"][0])
            if t.get("k") == "ref":
                bad_flag.add(t.get("d"))
    flagvars -= bad_flag
    if len(flagvars) > 3:
        flagvars = set(sorted(flagvars)[:3])

    def fkey(world):
        return tuple(sorted(x for x in world if x[0] == "flag"))

    def w_transfer(state, n, blk, report=False):
        out = {}
        for w in state:
            w2 = transfer(w, n, blk, report)
            if flagvars:
                vals = []
                if n.get("k") == "assign" and n.get("op") == "=":
                    t = X.strip(n["ch"][0])
                    if t.get("k") == "ref" and t.get("d") in flagvars:
                        vals.append((t["d"], X.const_val(n["ch"][1])))
                if n.get("k") == "decl":
                    for dcl in n.get("decls", ()):
                        if dcl["d"] in flagvars and dcl.get("init") is not None:
                            vals.append((dcl["d"], X.const_val(dcl["init"])))
                for d_, v_ in vals:
                    w2 = frozenset([x for x in w2 if not (x[0] == "flag" and x[1] == d_)] + [("flag", d_, 1 if v_ else 0)])
            k_ = fkey(w2)
            out[k_] = join(out[k_], w2) | frozenset(k_) if k_ in out else w2
        return frozenset(out.values())

    def w_refine(state, cond, truth, blk):
        out = {}
        for w in state:
            if flagvars and not isinstance(truth, tuple):
                dead = False
                for f_ in X.implied(cond, truth):
                    if f_[0] in ("true", "false") and isinstance(f_[1], str) and f_[1].startswith("d") and f_[1][1:].isdigit():
                        d_ = int(f_[1][1:])
                        for x in w:
                            if x[0] == "flag" and x[1] == d_ and bool(x[2]) != (f_[0] == "true"):
                                dead = True
                if dead:
                    continue
            w2 = refine(w, cond, truth, blk)
            if w2 is None:
                continue
            k_ = fkey(w2)
            out[k_] = join(out[k_], w2) | frozenset(k_) if k_ in out else w2
        return frozenset(out.values()) if out else None

    def w_join(a, b):
        out = {}
        for w in list(a) + list(b):
            k_ = fkey(w)
            out[k_] = join(out[k_], w) | frozenset(k_) if k_ in out else w
        return frozenset(out.values())

    init = frozenset([frozenset(("safe", p["d"], entry_safe) for p in fn.params if p["d"] in cursors)])
    ins = flow.forward(cfg, init, lambda s_, n, b: w_transfer(s_, n, b), refine=w_refine, join=w_join)
    # reporting pass
    for b in cfg.rpo():
        if b not in ins:
            continue
        st = ins[b]
        for e in cfg.blocks[b].el:
            n = fn.nodes.get(e)
            if n is not None:
                st = w_transfer(st, n, cfg.blocks[b], report=True)
    seen = set()
    out = []
    for n, kind, msg in viol:
        if n["i"] not in seen:
            seen.add(n["i"])
            out.append((n, kind, msg))
    return out, checked[0]
