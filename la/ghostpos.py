"""GHOSTPOS: relational abstract interpretation of index arithmetic in sequence containers.

Abstract state: a conjunction of linear constraints (la.lin, each `e >= 0`) over
  v<d>    the integer locals / parameters of the function,
  len     self->len  (self = parameter 0),
  p<d>    a *ghost* position for every local that points at a list node: the number of next-steps from self->head.

Ghost positions are driven by the code itself:  X = self->head -> 0;  X = self->tail -> len-1;  X = Y->next -> p<Y>+1;
X = Y->prev -> p<Y>-1;  X = Y -> p<Y>.  Branch conditions refine them through the shape invariant of a well-formed list
(the state anchor of C02: the next-chain from head has exactly len nodes and the prev-chain mirrors it):
    X != NULL  => 0 <= p<X> <= len-1        X->next == NULL => p<X> == len-1        X->prev == NULL => p<X> == 0
    self->head == NULL <=> len == 0          X == NULL after a forward walk => p<X> == len, after a backward walk => p<X> == -1
A store that re-links the chain (Y->next = .., self->head = ..) forgets every ghost position except Y's.
Join keeps the constraints of either side that the other side entails (with widening after a few rounds).

Clients ask, at a program point, whether the state entails a linear goal or is infeasible together with some constraints.
"""
import re

from . import expr as X, nullness, classinfo
from .lin import Lin, feasible, entails
from .facts import walk

NORETURN = {"libast_fatal_error"}
WIDEN_AFTER = 3
MAX_CONS = 80


def project(cons, sym):
    """Fourier-Motzkin elimination of one symbol"""
    pos, neg, rest = [], [], []
    for e in cons:
        k = e.coef(sym)
        (pos if k > 0 else neg if k < 0 else rest).append(e)
    out = set(rest)
    for p in pos:
        kp = p.coef(sym)
        for q in neg:
            kq = -q.coef(sym)
            r = p.scale(kq) + q.scale(kp)
            if r.is_const():
                continue
            out.add(r)
    return out


class Bottom(Exception):
    pass


def mode_locals(fn, cfg):
    """{local: {block id: constant}} for "mode" locals: only ever assigned constants (`where = PLACE_FRONT;`), at least twice,
    never modified otherwise nor address-taken, and no assignment can be followed by another one (they sit on alternative
    branches), so that on every path the local has one value from its assignment on."""
    asg = {}
    bad = set()
    for x in walk(fn.body):
        k = x.get("k")
        if k == "assign":
            l = X.strip(x["ch"][0])
            if l is not None and l.get("k") == "ref" and l.get("rk") == "local":
                cv = X.const_val(x["ch"][1]) if x.get("op") == "=" else None
                if cv is None:
                    bad.add(l["d"])
                else:
                    asg.setdefault(l["d"], []).append((x, cv))
        elif k == "un" and x.get("op") in ("++", "--", "&"):
            l = X.strip(x["ch"][0])
            if l is not None and l.get("k") == "ref":
                bad.add(l.get("d"))
        elif k == "decl":
            for dcl in x.get("decls", ()):
                if dcl.get("init") is not None:
                    bad.add(dcl["d"])
    out = {}
    for d, lst in asg.items():
        vd = fn.vardecls.get(d) or {}
        if d in bad or len(lst) < 2 or vd.get("tp") or not vd.get("tw"):
            continue
        blocks = {}
        ok = True
        for x, cv in lst:
            pos = cfg.pos.get(x["i"])
            if pos is None or pos[0] in blocks:
                ok = False
                break
            blocks[pos[0]] = cv
        if not ok:
            continue
        # no assignment block reachable from another (or from itself)
        for b0 in blocks:
            seen = set()
            st = [s_ for s_ in cfg.blocks[b0].succ if s_ is not None]
            while st:
                y = st.pop()
                if y in seen:
                    continue
                seen.add(y)
                st.extend(s_ for s_ in cfg.blocks[y].succ if s_ is not None)
            if seen & set(blocks):
                ok = False
                break
        if ok:
            out[d] = blocks
    return out


class WorldCfg(object):
    """Product of a CFG with the value of one mode local (see mode_locals): block (b, w) is block b reached with the local
    holding w (None before its assignment).  Edges of a switch / test on the local that contradict w are dropped, so the
    dataflow keeps the facts established where the mode was chosen apart (trace partitioning on the mode)."""

    def __init__(self, base, fn, d, blocks):
        self.base = base
        self.fn = fn
        self.d = d
        self.assign_blocks = blocks
        self.entry = (base.entry, None)
        self.blocks = {}
        self._edges = {}
        st = [self.entry]
        while st:
            k = st.pop()
            if k in self.blocks:
                continue
            b, w = k
            self.blocks[k] = base.blocks[b]
            w2 = self.assign_blocks.get(b, w)
            es = []
            for s_, cond, truth in base.edges(b):
                c = X.strip(cond) if cond is not None else None
                if w2 is not None and c is not None and c.get("k") == "ref" and c.get("d") == d and isinstance(truth, tuple):
                    if truth[0] == "case" and truth[1] is not None and truth[1] != w2:
                        continue
                    if truth[0] == "default" and len(truth) > 1 and w2 in truth[1]:
                        continue
                es.append(((s_, w2), cond, truth))
                st.append((s_, w2))
            self._edges[k] = es

    def __getattr__(self, name):
        return getattr(self.base, name)

    def edges(self, k):
        return self._edges[k]

    def rpo(self):
        seen = {self.entry}
        order = []
        stack = [(self.entry, iter([e[0] for e in self._edges[self.entry]]))]
        while stack:
            node, it = stack[-1]
            adv = False
            for s_ in it:
                if s_ not in seen:
                    seen.add(s_)
                    stack.append((s_, iter([e[0] for e in self._edges[s_]])))
                    adv = True
                    break
            if not adv:
                order.append(node)
                stack.pop()
        order.reverse()
        return order


class GhostPos(object):
    def __init__(self, fn, prog=None, mutators=None, pure=None, self_index=0):
        self.fn = fn
        self.prog = prog
        self.cfg = nullness.prepared_cfg(fn, NORETURN)
        if self.cfg is not None:
            modes = mode_locals(fn, self.cfg)
            if modes:
                d = sorted(modes)[0]
                self.cfg = WorldCfg(self.cfg, fn, d, modes[d])
        self.selfd = fn.params[self_index]["d"] if (fn.params and self_index is not None) else None
        self.intvars = set()
        self.ptrvars = set()
        for p in fn.params:
            if p["d"] != self.selfd and p.get("tw") and not p.get("tp"):
                self.intvars.add(p["d"])
        for d, vd in fn.vardecls.items():
            if vd.get("tp"):
                if re.search(r"item", vd.get("t", "") + vd.get("tc", "")):
                    self.ptrvars.add(d)
            elif vd.get("tw"):
                self.intvars.add(d)
        # link pointers (item **link = &self->head; link = &(*link)->next): p<link> is the position of the node *link leads to
        self.linkvars = set()
        for d, vd in fn.vardecls.items():
            t_ = (vd.get("tc") or vd.get("t") or "")
            if vd.get("tp") and re.search(r"item", t_) and (re.search(r"\*\s*\*\s*$", vd.get("tc") or "") or re.search(r"_item_t\s*\*\s*$", vd.get("t") or "")):
                self.linkvars.add(d)
        self.ptrvars -= self.linkvars
        self.fresh_nodes = set()      # locals assigned from *_item_new(): not part of the chain until linked
        assigns = []
        for x in walk(fn.body):
            if x.get("k") == "assign" and x.get("op") == "=":
                l, r = X.strip(x["ch"][0]), X.strip(x["ch"][1])
                if l.get("k") == "ref" and r.get("k") == "call" and classinfo.is_node_ctor(fn.unit, X.callee_name(r) or ""):
                    self.fresh_nodes.add(l["d"])
                if l.get("k") == "ref" and l.get("d") in self.ptrvars:
                    assigns.append((l["d"], x["ch"][1]))
            if x.get("k") == "decl":
                for dcl in x.get("decls", ()):
                    if dcl["d"] in self.ptrvars and dcl.get("init") is not None:
                        assigns.append((dcl["d"], dcl["init"]))
        # node pointers produced by calls this analysis has no model of (helpers extracted by a refactoring, accessors)
        self.unknown_ptrs = set()
        for d, rhs in assigns:
            r_ = X.strip(rhs)
            if r_ is not None and r_.get("k") == "call" and not (re.search(r"_item_dup$", X.callee_name(r_) or "") or classinfo.is_node_ctor(fn.unit, X.callee_name(r_) or "")):
                self.unknown_ptrs.add(d)
        # only locals that can point into self's chain carry a ghost position; nodes of other lists and fresh nodes do not
        cand = self.ptrvars
        self.ptrvars = set()
        changed = True
        while changed:
            changed = False
            for d, rhs in assigns:
                if d not in self.ptrvars and self.pos(rhs) is not None:
                    self.ptrvars.add(d)
                    changed = True
        # a fresh node held in a local and then linked behind a chain node (node = new(); cur->next = node; cur = node;) is part
        # of the chain from that store on: such locals carry a ghost position too (unknown until they are linked)
        linked = set()
        for x in walk(fn.body):
            if x.get("k") == "assign" and x.get("op") == "=":
                l, r = X.strip(x["ch"][0]), X.strip(x["ch"][1])
                if l.get("k") == "member" and l.get("arrow") and l.get("n") == "next" and r is not None and r.get("k") == "ref" \
                        and r.get("d") in cand and r.get("d") not in self.ptrvars:
                    b = X.strip(l["ch"][0])
                    if b.get("k") == "ref" and b.get("d") in self.ptrvars:
                        linked.add(r["d"])
        if linked:
            self.ptrvars |= linked
            changed = True
            while changed:
                changed = False
                for d, rhs in assigns:
                    if d not in self.ptrvars and self.pos(rhs) is not None:
                        self.ptrvars.add(d)
                        changed = True
        self.linked_fresh = linked
        self.foreign = cand - self.ptrvars - self.linkvars
        self.mutators = mutators or {}
        self.pure = pure or set()
        self.ins = None
        self._tmp = 0
        self._bcache = {}
        self.flagdefs = {d: c for d, c in getattr(fn, "flagdefs", {}).items() if d in self.intvars}

    # ------------------------------------------------------------------ expressions
    def is_self(self, e):
        s = X.strip(e)
        return s is not None and s.get("k") == "ref" and s.get("d") == self.selfd

    def self_field(self, e):
        s = X.strip(e)
        if s is not None and s.get("k") == "member" and s.get("arrow") and self.is_self(s["ch"][0]):
            return s["n"]
        return None

    def lin(self, e):
        """Lin value of an integer expression or None"""
        s = X.strip(e)
        if s is None:
            return None
        cv = X.const_val(s)
        if cv is not None and not s.get("tp"):
            return Lin.const(cv)
        k = s.get("k")
        if k == "ref" and s.get("d") in self.intvars:
            return Lin.sym("v%d" % s["d"])
        if self.self_field(s) == "len":
            return Lin.sym("len")
        if k == "bin" and s.get("op") in ("+", "-") and not s.get("tp"):
            a, b = self.lin(s["ch"][0]), self.lin(s["ch"][1])
            if a is None or b is None:
                return None
            return a + b if s["op"] == "+" else a - b
        if k == "bin" and s.get("op") == "*":
            a, b = self.lin(s["ch"][0]), self.lin(s["ch"][1])
            if a is not None and b is not None:
                if a.is_const():
                    return b.scale(a.c)
                if b.is_const():
                    return a.scale(b.c)
            return None
        if k == "un" and s.get("op") == "-":
            a = self.lin(s["ch"][0])
            return -a if a is not None else None
        if k == "un" and s.get("op") in ("++", "--"):
            # value of x++ / ++x, read in the state AFTER the increment executed (clients visit the enclosing expression)
            a = self.lin(s["ch"][0])
            if a is None:
                return None
            d = 1 if s["op"] == "++" else -1
            return a - d if s.get("post") else a
        return None

    def pos(self, e):
        """ghost position (Lin) of a node-pointer expression or None"""
        s = X.strip(e)
        if s is None:
            return None
        if s.get("k") == "ref" and s.get("d") in self.ptrvars:
            return Lin.sym("p%d" % s["d"])
        if s.get("k") == "un" and s.get("op") == "*":
            t_ = X.strip(s["ch"][0])
            if t_ is not None and t_.get("k") == "ref" and t_.get("d") in self.linkvars:
                return Lin.sym("p%d" % t_["d"])
        f = self.self_field(s)
        if f == "head":
            return Lin.const(0)
        if f == "tail":
            return Lin.sym("len") - 1
        if s.get("k") == "member" and s.get("arrow") and s["n"] in ("next", "prev"):
            b = self.pos(s["ch"][0])
            if b is None:
                return None
            return b + (1 if s["n"] == "next" else -1)
        return None

    def known_nonnull(self, cons, e):
        """is the node pointer expression provably non-NULL in this state?"""
        s = X.strip(e)
        if s is None:
            return False
        if s.get("k") == "call" and (re.search(r"_item_dup$", X.callee_name(s) or "") or classinfo.is_node_ctor(self.fn.unit, X.callee_name(s) or "")):
            return True
        if s.get("k") == "ref" and s.get("d") in self.ptrvars:
            if entails(list(cons), Lin.sym("n%d" % s["d"]) - 1):
                return True
        if s.get("k") == "member" and s.get("arrow") and s.get("n") in ("next", "prev"):
            b = X.strip(s["ch"][0])
            if b.get("k") == "ref" and (b.get("d") in self.fresh_nodes or b.get("d") in self.foreign):
                return entails(list(cons), Lin.sym("m%d_%s" % (b["d"], s["n"])) - 1)
        p = self.pos(s)
        if p is None:
            return False
        return entails(list(cons), p) and entails(list(cons), Lin.sym("len") - 1 - p)

    def wire(self, cons, d, field, rhs):
        """F->field = rhs for a node F outside the chain: remember whether the stored pointer is known non-NULL"""
        sym = "m%d_%s" % (d, field)
        out = frozenset(project(cons, sym))
        if self.known_nonnull(cons, rhs):
            out = out | {Lin.sym(sym) - 1}
        return out

    # ------------------------------------------------------------------ state operations
    def assign_sym(self, cons, sym, val):
        """sym := val   (val may mention sym)"""
        if val is not None and val.coef(sym) != 0:
            self._tmp += 1
            t = "t%d" % self._tmp
            m = {sym: Lin.sym(t)}
            moved = [c.subst(m) for c in cons]
            v2 = val.subst(m)
            moved.append(Lin.sym(sym) - v2)
            moved.append(v2 - Lin.sym(sym))
            return frozenset(project(moved, t))
        out = set(project(cons, sym))
        if val is not None:
            out.add(Lin.sym(sym) - val)
            out.add(val - Lin.sym(sym))
        return frozenset(out)

    def havoc_ptrs(self, cons, keep=None):
        out = cons
        for d in sorted(self.ptrvars | self.linkvars):
            s = "p%d" % d
            if s != keep and any(c.coef(s) for c in out):
                out = project(out, s)
        return frozenset(out)

    def transfer(self, cons, n, blk=None):
        k = n.get("k")
        if k == "assign":
            l = X.strip(n["ch"][0])
            op = n.get("op")
            rc = X.strip(n["ch"][1])
            if l.get("k") == "ref" and l.get("d") in self.intvars and rc is not None and rc.get("k") == "cond" and op in ("=", "+=", "-="):
                # x op= (c ? a : b): the two outcomes separately, then joined (MIN / MAX / clamp idioms)
                outs = []
                for truth, arm in ((True, rc["ch"][1]), (False, rc["ch"][2])):
                    st = self.refine(cons, rc["ch"][0], truth)
                    if st is None:
                        continue
                    val = self.lin(arm)
                    sym = "v%d" % l["d"]
                    if op == "=":
                        outs.append(self.assign_sym(st, sym, val))
                    elif val is not None:
                        outs.append(self.assign_sym(st, sym, Lin.sym(sym) + val if op == "+=" else Lin.sym(sym) - val))
                    else:
                        outs.append(self.assign_sym(st, sym, None))
                if not outs:
                    return cons
                res = outs[0]
                for o in outs[1:]:
                    res = self.join(res, o, False)
                return res
            if l.get("k") == "ref" and l.get("d") in self.intvars:
                sym = "v%d" % l["d"]
                r = self.lin(n["ch"][1])
                if op == "=":
                    return self.assign_sym(cons, sym, r)
                if op in ("+=", "-=") and r is not None:
                    return self.assign_sym(cons, sym, Lin.sym(sym) + r if op == "+=" else Lin.sym(sym) - r)
                return self.assign_sym(cons, sym, None)
            if l.get("k") == "ref" and l.get("d") in self.linkvars and op == "=":
                r_ = X.strip(n["ch"][1])
                val = None
                if r_ is not None and r_.get("k") == "un" and r_.get("op") == "&":
                    val = self.pos(r_["ch"][0])
                elif r_ is not None and r_.get("k") == "ref" and r_.get("d") in self.linkvars:
                    val = Lin.sym("p%d" % r_["d"])
                return self.assign_sym(cons, "p%d" % l["d"], val)
            if l.get("k") == "un" and l.get("op") == "*" and (X.strip(l["ch"][0]) or {}).get("d") in self.linkvars and op == "=":
                # *link = E re-links the chain at that place: ghost positions of the other pointers are forgotten
                keep_ = "p%d" % X.strip(l["ch"][0])["d"]
                out = self.havoc_ptrs(cons, None)
                for d_ in sorted(self.linkvars):
                    if "p%d" % d_ != keep_ and any(c.coef("p%d" % d_) for c in out):
                        out = frozenset(project(out, "p%d" % d_))
                return out
            if l.get("k") == "ref" and l.get("d") in self.ptrvars and op == "=":
                nn = self.known_nonnull(cons, n["ch"][1])
                out = self.assign_sym(cons, "p%d" % l["d"], self.pos(n["ch"][1]))
                out = frozenset(project(out, "n%d" % l["d"]))
                if nn:
                    out = out | {Lin.sym("n%d" % l["d"]) - 1}
                return out
            f = self.self_field(l)
            if f == "len":
                r = self.lin(n["ch"][1])
                if op == "=":
                    return self.assign_sym(cons, "len", r)
                if op in ("+=", "-=") and r is not None:
                    return self.assign_sym(cons, "len", Lin.sym("len") + r if op == "+=" else Lin.sym("len") - r)
                return self.assign_sym(cons, "len", None)
            if f == "head" and op == "=":
                return self.havoc_ptrs(cons)
            if l.get("k") == "member" and l.get("arrow") and l["n"] == "next" and op == "=":
                b = X.strip(l["ch"][0])
                if b.get("k") == "ref" and (b.get("d") in self.fresh_nodes or b.get("d") in self.foreign):
                    return self.wire(cons, b["d"], "next", n["ch"][1])     # wiring a node that is not in self's chain
                keep = "p%d" % b["d"] if b.get("k") == "ref" and b.get("d") in self.ptrvars else None
                out = self.havoc_ptrs(cons, keep)
                if keep is not None and rc is not None and rc.get("k") == "ref" and rc.get("d") in self.ptrvars and rc.get("d") != b.get("d"):
                    # the node held by the right-hand local is now the successor of the node on the left
                    out = self.assign_sym(out, "p%d" % rc["d"], Lin.sym(keep) + 1)
                return out
            if l.get("k") == "member" and l.get("arrow") and l["n"] == "prev" and op == "=":
                b = X.strip(l["ch"][0])
                if b.get("k") == "ref" and (b.get("d") in self.fresh_nodes or b.get("d") in self.foreign):
                    return self.wire(cons, b["d"], "prev", n["ch"][1])
            return cons
        if k == "un" and n.get("op") in ("++", "--"):
            l = X.strip(n["ch"][0])
            d = 1 if n["op"] == "++" else -1
            if l.get("k") == "ref" and l.get("d") in self.intvars:
                sym = "v%d" % l["d"]
                return self.assign_sym(cons, sym, Lin.sym(sym) + d)
            if self.self_field(l) == "len":
                return self.assign_sym(cons, "len", Lin.sym("len") + d)
            return cons
        if k == "decl":
            out = cons
            for dcl in n.get("decls", ()):
                if dcl["d"] in self.intvars:
                    out = self.assign_sym(out, "v%d" % dcl["d"], self.lin(dcl["init"]) if dcl.get("init") is not None else None)
                elif dcl["d"] in self.ptrvars:
                    out = self.assign_sym(out, "p%d" % dcl["d"], self.pos(dcl["init"]) if dcl.get("init") is not None else None)
            return out
        if k == "call":
            cn = X.callee_name(n) or ""
            args = n["ch"][1:]
            taken_ = []
            for a in args:
                s = X.strip(a)
                if s is not None and s.get("k") == "un" and s.get("op") == "&":
                    t = X.strip(s["ch"][0])
                    if t is not None and t.get("k") == "ref" and t.get("d") in self.intvars:
                        taken_.append(t["d"])
            if taken_:
                # a helper that reports through the address of an integer local: replayed path by path when it is a small
                # loop-free function of this unit (la/inout.py), otherwise the local is unknown afterwards
                from . import inout
                g_ = self.fn.unit.functions.get(cn) if hasattr(self.fn, "unit") else None
                summ_ = inout.summary(g_) if g_ is not None else None
                if summ_:
                    outs = []
                    for tests, stores, _ret in summ_:
                        st = cons
                        for c_, t_ in tests:
                            st = self.refine(st, inout.bind(c_, g_, args), t_)
                            if st is None:
                                break
                        if st is None:
                            continue
                        vals = {}
                        okp = True
                        for pd_, rhs_ in stores.items():
                            j_ = [i_ for i_, pp_ in enumerate(g_.params) if pp_["d"] == pd_][0]
                            sa_ = X.strip(args[j_]) if j_ < len(args) else None
                            ta_ = X.strip(sa_["ch"][0]) if sa_ is not None and sa_.get("k") == "un" and sa_.get("op") == "&" else None
                            if ta_ is None or ta_.get("d") not in self.intvars:
                                okp = False
                                break
                            vals[ta_["d"]] = self.lin(inout.bind(rhs_, g_, args))
                        if not okp:
                            outs = None
                            break
                        for d_, v_ in vals.items():
                            st = self.assign_sym(st, "v%d" % d_, v_)
                        outs.append(st)
                    if outs:
                        res = outs[0]
                        for o in outs[1:]:
                            res = self.join(res, o, False)
                        return res
                    if outs is not None and not outs:
                        return cons
                out = cons
                for d_ in taken_:
                    out = self.assign_sym(out, "v%d" % d_, None)
                cons = out
            if args and self.is_self(args[0]):
                if cn in self.mutators:
                    out = self.havoc_ptrs(cons)
                    d = self.mutators[cn]
                    return self.assign_sym(out, "len", (Lin.sym("len") + d) if d is not None else None)
                if cn in self.pure:
                    return cons
                return self.assign_sym(self.havoc_ptrs(cons), "len", None)
            # address-taken integer locals
            out = cons
            for a in args:
                s = X.strip(a)
                if s is not None and s.get("k") == "un" and s.get("op") == "&":
                    t = X.strip(s["ch"][0])
                    if t.get("k") == "ref" and t.get("d") in self.intvars:
                        out = self.assign_sym(out, "v%d" % t["d"], None)
            return out
        return cons

    # ------------------------------------------------------------------ branch refinement
    def _add(self, cons, new):
        out = set(cons)
        out.update(new)
        if not feasible(list(out)):
            return None
        return frozenset(out)

    def _cmp(self, cons, op, a, b):
        d = a - b
        if op == "<":
            return [(-d) - 1]
        if op == "<=":
            return [-d]
        if op == ">":
            return [d - 1]
        if op == ">=":
            return [d]
        if op == "==":
            return [d, -d]
        if op == "!=":
            if entails(cons, d):
                return [d - 1]
            if entails(cons, -d):
                return [(-d) - 1]
            return []
        return []

    NEG = {"<": ">=", ">": "<=", "<=": ">", ">=": "<", "==": "!=", "!=": "=="}

    def ptr_fact(self, cons, e, isnull):
        """constraints implied by node-pointer expression e being NULL / non-NULL"""
        s = X.strip(e)
        if s is None:
            return []
        if self.is_self(s):
            return None if isnull else []          # self == NULL: excluded by the interface contract (C16 covers it)
        if s.get("k") == "ref" and s.get("rk") == "param":
            return None if isnull else []          # NULL element arguments: likewise
        f = self.self_field(s)
        L = Lin.sym("len")
        if f in ("head", "tail"):
            return [L, -L] if isnull else [L - 1]
        if s.get("k") == "ref" and s.get("d") in self.unknown_ptrs:
            # the outcome depends on what an unmodelled callee returned: whatever is concluded under this test is undecided
            return [Lin.sym("unk") - 1] + ([Lin.sym("n%d" % s["d"]) - 1] if not isnull else [])
        if s.get("k") == "un" and s.get("op") == "*" and (X.strip(s["ch"][0]) or {}).get("d") in self.linkvars:
            p = Lin.sym("p%d" % X.strip(s["ch"][0])["d"])
            if not isnull:
                return [p, L - 1 - p]
            if entails(cons, p):
                return [p - L, L - p]       # reached by following next links from the head: NULL means one past the last node
            return []
        if s.get("k") == "ref" and s.get("d") in self.ptrvars:
            p = Lin.sym("p%d" % s["d"])
            if not isnull:
                if any(c.coef("p%d" % s["d"]) for c in cons):
                    return [p, L - 1 - p, Lin.sym("n%d" % s["d"]) - 1]
                return [Lin.sym("n%d" % s["d"]) - 1]
            if entails(cons, p):
                return [p - L, L - p]
            if entails(cons, L - 1 - p):
                return [p + 1, -p - 1]
            return []
        if s.get("k") == "member" and s.get("arrow") and s["n"] in ("next", "prev"):
            b = self.pos(s["ch"][0])
            if b is None:
                return []
            if s["n"] == "next":
                return [b - (L - 1), (L - 1) - b] if isnull else [L - 2 - b, b]
            return [b, -b] if isnull else [b - 1, L - 1 - b]
        return []

    def refine(self, cons, cond, truth, blk=None):
        if isinstance(truth, tuple):
            # switch (classify(len, idx)): the tests of the helper's paths that return this case's value (for the default: none
            # of the excluded values); with several such paths, the constraints all of them agree on
            sc = X.strip(cond)
            if sc is not None and sc.get("k") == "call" and X.callee_name(sc) and self.prog is not None:
                g_ = self.prog.fn(X.callee_name(sc))
                vp = None
                if g_ is not None and g_.body is not None and not any((X.strip(a) or {}).get("d") in self.ptrvars for a in sc["ch"][1:]):
                    try:
                        from . import inout
                        vp = inout.verdict_paths(g_, sc["ch"][1:])
                    except Exception:
                        vp = None
                if vp:
                    if truth[0] == "case" and truth[1] is not None:
                        sel = [t_ for v_, t_ in vp if v_ == truth[1]]
                    elif truth[0] == "default":
                        ex_ = set(truth[1] if len(truth) > 1 else ())
                        sel = [t_ for v_, t_ in vp if v_ not in ex_]
                    else:
                        sel = None
                    if sel is not None:
                        outs = []
                        for tests in sel:
                            c2 = cons
                            for c_, t_ in tests:
                                c2 = self.refine(c2, c_, t_) if c2 is not None else None
                            if c2 is not None:
                                outs.append(c2)
                        if not outs:
                            return None
                        if len(outs) == 1:
                            return outs[0]
                        common = set(outs[0])
                        for o_ in outs[1:]:
                            common &= set(o_)
                        return frozenset(common | set(cons))
            return cons
        c = X.strip(cond)
        if c is None:
            return cons
        k = c.get("k")
        if k == "un" and c.get("op") == "!":
            return self.refine(cons, c["ch"][0], not truth)
        if any(y.get("k") == "member" and not y.get("arrow") and (X.strip(y["ch"][0]) or {}).get("k") == "ref" and
               X.strip(y["ch"][0]).get("rk") == "local" and X.strip(y["ch"][0]).get("d") in self._addr_taken_structs() for y in walk(c)):
            # a test of a field of a struct local that was handed to a helper by address (seek(self, idx, &cur); if (cur.pos != idx)):
            # what the helper left there is not modelled - whatever is concluded under this test is not definite
            return self._add(cons, [Lin.sym("unk") - 1])
        if k == "bin" and c.get("op") in ("<", ">", "<=", ">=", "==", "!=") and any(
                y.get("k") == "bin" and y.get("op") == "-" and all((X.strip(z) or {}).get("tp") for z in y["ch"]) for y in walk(c)):
            # a bound counted as a pointer difference (for (slot = arr; (slot - arr) < len; slot++)): not modelled
            return self._add(cons, [Lin.sym("unk") - 1])
        if k == "ref" and c.get("d") in self.flagdefs:
            v = Lin.sym("v%d" % c["d"])
            r = self._add(cons, [v - 1] if truth else [v, -v])
            return None if r is None else self.refine(r, self.flagdefs[c["d"]], truth)
        if k == "bin" and c.get("op") in ("==", "!=") and X.const_val(c["ch"][1]) == 0 and \
                (X.strip(c["ch"][0]) or {}).get("k") == "ref" and X.strip(c["ch"][0]).get("d") in self.flagdefs:
            return self.refine(cons, X.strip(c["ch"][0]), truth == (c["op"] == "!="))
        if k == "cond":
            tv, fv = X.const_val(c["ch"][1]), X.const_val(c["ch"][2])
            if tv is not None and fv is not None and bool(tv) != bool(fv):
                return self.refine(cons, c["ch"][0], truth if tv else not truth)
            return cons
        if k == "call" and X.callee_name(c) and self.prog is not None and self.prog.fn(X.callee_name(c)) is not None \
                and X.callee_name(c) not in self.pure and any((X.strip(a) or {}).get("d") in self.ptrvars for a in c["ch"][1:]):
            # the verdict of a program function that was handed a node pointer (detach(self, node, &out)): whatever is concluded
            # under this test depends on code this analysis has no model of
            return self._add(cons, [Lin.sym("unk") - 1])
        if k == "bin" and c.get("op") in ("&&", "||"):
            both = (c["op"] == "&&") == truth
            if both:
                r = self.refine(cons, c["ch"][0], truth)
                return None if r is None else self.refine(r, c["ch"][1], truth)
            return cons
        if k == "bin" and c.get("op") in ("<", ">", "<=", ">=", "==", "!="):
            op = c["op"] if truth else self.NEG[c["op"]]
            a, b = c["ch"][0], c["ch"][1]
            la, lb = self.lin(a), self.lin(b)
            sa, sb = X.strip(a), X.strip(b)
            if la is not None and lb is not None and not (sa.get("tp") or sb.get("tp")):
                return self._add(cons, self._cmp(cons, op, la, lb))
            if op in ("==", "!="):
                for x, y in ((a, b), (b, a)):
                    if X.is_null_const(y):
                        r = self.ptr_fact(cons, x, op == "==")
                        return None if r is None else self._add(cons, r)
                # node identity: X == self->head / self->tail
                pa, pb = self.pos(a), self.pos(b)
                if pa is not None and pb is not None and op == "==":
                    return self._add(cons, [pa - pb, pb - pa])
            return cons
        if c.get("tp"):
            r = self.ptr_fact(cons, c, not truth)
            return None if r is None else self._add(cons, r)
        l = self.lin(c)
        if l is not None:
            return self._add(cons, self._cmp(cons, "!=" if truth else "==", l, Lin.const(0)))
        return cons

    # ------------------------------------------------------------------ fixpoint
    def bounds(self, cons, e):
        """(lo, hi) of the linear expression e under cons (None = unbounded), by projection onto a fresh symbol"""
        key = (cons, e)
        r = self._bcache.get(key)
        if r is not None:
            return r
        t = "tb"
        cur = set(cons)
        cur.add(Lin.sym(t) - e)
        cur.add(e - Lin.sym(t))
        syms = set()
        for c in cur:
            syms.update(c.syms())
        syms.discard(t)
        # only the symbols connected to e matter
        while syms:
            best = None
            for s_ in syms:
                np_ = sum(1 for c in cur if c.coef(s_) > 0)
                nn_ = sum(1 for c in cur if c.coef(s_) < 0)
                cost = np_ * nn_ - np_ - nn_
                if best is None or cost < best[0]:
                    best = (cost, s_)
            cur = project(cur, best[1])
            syms.discard(best[1])
            if len(cur) > 400:
                self._bcache[key] = (None, None)
                return (None, None)
        lo = hi = None
        for c in cur:
            k = c.coef(t)
            if k > 0:       # k t + c0 >= 0  -> t >= ceil(-c0 / k)
                v = -((c.c) // k)
                lo = v if lo is None else max(lo, v)
            elif k < 0:     # t <= floor(c0 / -k)
                v = c.c // (-k)
                hi = v if hi is None else min(hi, v)
        self._bcache[key] = (lo, hi)
        return lo, hi

    def join(self, a, b, widen):
        if a == b:
            return a
        la, lb = list(a), list(b)
        kept = [c for c in la if entails(lb, c)]
        if widen:
            return frozenset(kept)
        for c in lb:
            if c not in a and entails(la, c) and not entails(kept, c):
                kept.append(c)
        sa, sb = set(), set()
        for c in la:
            sa.update(c.syms())
        for c in lb:
            sb.update(c.syms())
        syms = sorted(sa & sb)
        templates = [Lin.sym(x) for x in syms]
        for i, x in enumerate(syms):
            for y in syms[i + 1:]:
                templates.append(Lin.sym(x) - Lin.sym(y))
        if len(syms) <= 6:
            # a counter running down while a position runs up: x + y - z is what stays constant (remaining + position == len)
            for i, x in enumerate(syms):
                for y in syms[i + 1:]:
                    for z in syms:
                        if z != x and z != y:
                            templates.append(Lin.sym(x) + Lin.sym(y) - Lin.sym(z))
        for e in templates:
            loa, hia = self.bounds(a, e)
            lob, hib = self.bounds(b, e)
            if loa is not None and lob is not None:
                c = e - min(loa, lob)
                if not entails(kept, c):
                    kept.append(c)
            if hia is not None and hib is not None:
                c = Lin.const(max(hia, hib)) - e
                if not entails(kept, c):
                    kept.append(c)
        if len(kept) > MAX_CONS:
            kept = kept[:MAX_CONS]
        return frozenset(kept)

    def run(self, init=None):
        cfg = self.cfg
        nodes = self.fn.nodes
        init = frozenset(init if init is not None else [Lin.sym("len")])
        ins = {cfg.entry: init}
        edge_out = {}
        visits = {}
        order = cfg.rpo()
        prio = {b: i for i, b in enumerate(order)}
        work = {cfg.entry}
        it = 0
        while work:
            it += 1
            if it > 20000:
                raise RuntimeError("ghostpos did not converge in %s" % self.fn.name)
            b = min(work, key=lambda x: prio.get(x, 1 << 30))
            work.discard(b)
            st = ins[b]
            blk = cfg.blocks[b]
            for e in blk.el:
                n = nodes.get(e)
                if n is not None:
                    st = self.transfer(st, n, blk)
            for ei, (s, cond, truth) in enumerate(cfg.edges(b)):
                out = st
                if cond is not None:
                    out = self.refine(st, cond, truth, blk)
                key = (b, ei, s)
                if out is None:
                    edge_out.pop(key, None)
                    continue
                edge_out[key] = out
                back = prio.get(s, 1 << 30) <= prio.get(b, 1 << 30)
                if s not in ins:
                    ins[s] = out
                    work.add(s)
                    continue
                if back:
                    visits[s] = visits.get(s, 0) + 1
                    new = self.join(ins[s], out, visits[s] > WIDEN_AFTER)
                else:
                    # recompute the join over the current out-states of every incoming edge
                    new = None
                    for k2, o2 in edge_out.items():
                        if k2[2] == s:
                            new = o2 if new is None else self.join(new, o2, False)
                    if s == cfg.entry:
                        new = self.join(new, init, False)
                    # stay monotone with respect to what was already propagated
                    if new != ins[s] and not all(entails(list(ins[s]), c) for c in new):
                        new = self.join(ins[s], new, False)
                if new != ins[s]:
                    ins[s] = new
                    work.add(s)
        self.ins = ins
        self.edge_out = edge_out
        return ins

    def refine_dnf(self, cons, cond, truth):
        """the states (a disjunction) in which cond has this truth value: `!(a && b)` and `a || b` split into their cases"""
        c = X.strip(cond)
        if c is None:
            return [cons]
        k = c.get("k")
        if k == "un" and c.get("op") == "!":
            return self.refine_dnf(cons, c["ch"][0], not truth)
        if k == "cond":
            tv, fv = X.const_val(c["ch"][1]), X.const_val(c["ch"][2])
            if tv is not None and fv is not None and bool(tv) != bool(fv):
                return self.refine_dnf(cons, c["ch"][0], truth if tv else not truth)
        if k == "bin" and c.get("op") in ("&&", "||"):
            if (c["op"] == "&&") == truth:
                out = []
                for s1 in self.refine_dnf(cons, c["ch"][0], truth):
                    out.extend(self.refine_dnf(s1, c["ch"][1], truth))
                return out
            first = self.refine_dnf(cons, c["ch"][0], truth)
            rest = []
            for s1 in self.refine_dnf(cons, c["ch"][0], not truth):
                rest.extend(self.refine_dnf(s1, c["ch"][1], truth))
            return first + rest
        r = self.refine(cons, c, truth)
        return [] if r is None else [r]

    def expand_flags(self, cons):
        """case split of a state on what its decided flag locals stand for (see find_flagdefs)"""
        sts = [cons]
        for d in sorted(self.flagdefs):
            v = Lin.sym("v%d" % d)
            nxt = []
            for st in sts:
                if not any(c_.coef("v%d" % d) for c_ in st):
                    nxt.append(st)
                elif entails(st, v - 1):
                    nxt.extend(self.refine_dnf(st, self.flagdefs[d], True))
                elif entails(st, -v) and entails(st, v):
                    nxt.extend(self.refine_dnf(st, self.flagdefs[d], False))
                else:
                    nxt.append(st)
            sts = nxt
        return sts

    def states_before(self, node_id):
        res = []
        for st in self._states_before(node_id):
            res.extend(self.expand_flags(st) if self.flagdefs else [st])
        return res

    def _states_before(self, node_id):
        """one state per incoming edge of the node's block, each advanced to just before the node (for obligations whose
        justification is a disjunction of guards)"""
        cfg = self.cfg
        res = []
        for b, blk in cfg.blocks.items():
            if node_id in blk.el and b in self.ins:
                srcs = []
                for k, o in self.edge_out.items():
                    if k[2] != b:
                        continue
                    # an edge decided by a compound condition (`!(a && b)`): its cases separately instead of the one
                    # conjunction refine() can keep
                    done_ = False
                    if k[0] in self.ins:
                        es = cfg.edges(k[0])
                        if k[1] < len(es) and es[k[1]][1] is not None and not isinstance(es[k[1]][2], tuple):
                            c_ = X.strip(es[k[1]][1])
                            while c_ is not None and c_.get("k") == "un" and c_.get("op") == "!":
                                c_ = X.strip(c_["ch"][0])
                            if c_ is not None and c_.get("k") == "bin" and c_.get("op") in ("&&", "||"):
                                st0 = self.ins[k[0]]
                                for e in cfg.blocks[k[0]].el:
                                    n0 = self.fn.nodes.get(e)
                                    if n0 is not None:
                                        st0 = self.transfer(st0, n0, cfg.blocks[k[0]])
                                srcs.extend(self.refine_dnf(st0, es[k[1]][1], es[k[1]][2]))
                                done_ = True
                    if not done_:
                        srcs.append(o)
                if b == cfg.entry or not srcs:
                    srcs = [self.ins[b]]
                for st in srcs:
                    for e in blk.el:
                        if e == node_id:
                            break
                        n = self.fn.nodes.get(e)
                        if n is not None:
                            st = self.transfer(st, n, blk)
                    res.append(st)
                if not isinstance(cfg, WorldCfg):
                    break
        return res

    def visit(self, fn_visit):
        """fn_visit(state_before, node, block) for every reachable CFG element, in order"""
        cfg = self.cfg
        for b in cfg.rpo():
            if b not in self.ins:
                continue
            st = self.ins[b]
            blk = cfg.blocks[b]
            for e in blk.el:
                n = self.fn.nodes.get(e)
                if n is None:
                    continue
                fn_visit(st, n, blk)
                st = self.transfer(st, n, blk)

    def _addr_taken_structs(self):
        r = getattr(self, "_ats", None)
        if r is None:
            r = set()
            for y in walk(self.fn.body):
                if y.get("k") == "un" and y.get("op") == "&":
                    t = X.strip(y["ch"][0])
                    if t is not None and t.get("k") == "ref" and t.get("rk") == "local" and not t.get("tp") and not t.get("tw"):
                        r.add(t["d"])
            self._ats = r
        return r

    # ------------------------------------------------------------------ queries
    @staticmethod
    def tainted(cons):
        """the state was reached through a test of a value this analysis has no model of"""
        return entails(list(cons), Lin.sym("unk") - 1)

    def mentions_unknown(self, e):
        """does the expression use a node pointer that came out of an unmodelled call (directly or as a nested call)?"""
        for y in walk(e):
            if y.get("k") == "ref" and y.get("d") in self.unknown_ptrs:
                return True
            if y is not e and y.get("k") == "call" and y.get("tp") and not re.search(r"_item_(new|del|get_data|set_data)$", X.callee_name(y) or ""):
                return True
        return False

    @staticmethod
    def proves_eq(cons, a, b):
        return entails(list(cons), a - b) and entails(list(cons), b - a)

    @staticmethod
    def compatible(cons, extra):
        return feasible(list(cons) + list(extra))


def show(cons):
    return " & ".join(sorted("%r>=0" % c for c in cons))


def entry_from_callers(fn, unit, make_engine):
    """Constraints over fn's integer parameters that hold at every call site inside the unit (context for a static helper that
    a refactoring extracted): for each call, the caller's state before the call is extended with `param == argument` and
    projected onto the parameters; several call sites are joined (bounds hull).  None when fn has no unit-local caller."""
    sites = []
    for g in unit.functions.values():
        if g is fn or g.cfg is None:
            continue
        for c in X.calls_in(g.body):
            if X.callee_name(c) == fn.name:
                sites.append((g, c))
    if not sites or not fn.static:
        return None
    result = None
    for g, c in sites:
        eng = make_engine(g)
        eng.run()
        sts = eng.states_before(c["i"])
        for st in sts:
            cons = set(st)
            params = []
            for p, a in zip(fn.params, c["ch"][1:]):
                if p.get("tp") or not p.get("tw"):
                    continue
                la = eng.lin(a)
                if la is None:
                    continue
                ps = "q%d" % p["d"]
                cons.add(Lin.sym(ps) - la)
                cons.add(la - Lin.sym(ps))
                params.append((ps, p["d"]))
            syms = set()
            for e in cons:
                syms.update(e.syms())
            for s_ in sorted(syms):
                if not s_.startswith("q"):
                    cons = project(cons, s_)
                    if len(cons) > 300:
                        cons = set()
                        break
            ren = {ps: Lin.sym("v%d" % d) for ps, d in params}
            cur = frozenset(e.subst(ren) for e in cons)
            result = cur if result is None else eng.join(result, cur, False)
    return result
